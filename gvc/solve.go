package main

// solve.go: discharge obligations with z3 4.8.12, z3 5.1.0 and cvc5.

import (
	"bytes"
	"context"
	"fmt"
	"os"
	"os/exec"
	"path/filepath"
	"strings"
	"sync"
	"time"
)

type solverCfg struct {
	name string
	bin  string
	args func(timeoutMs int) []string
	pre  string // text placed before the prelude
}

var keepFiles bool

var knownQuick = map[string]bool{}

// siteCoversComplete: also run the complete solver modes on call-site covers (thorough tier).
var siteCoversComplete bool

var (
	z3new = solverCfg{name: "z3-5.1.0/ematch", bin: "z3-new", args: func(t int) []string {
		return []string{"-smt2", fmt.Sprintf("-t:%d", t), "smt.auto_config=false", "smt.mbqi=false"}
	}}
	z3newDefault = solverCfg{name: "z3-5.1.0/default", bin: "z3-new", args: func(t int) []string { return []string{"-smt2", fmt.Sprintf("-t:%d", t)} }}
	z3old        = solverCfg{name: "z3-4.8.12/ematch", bin: "/usr/bin/z3", args: func(t int) []string {
		return []string{"-smt2", fmt.Sprintf("-t:%d", t), "smt.auto_config=false", "smt.mbqi=false"}
	}}
	cvc5 = solverCfg{name: "cvc5-1.0.3", bin: "cvc5", args: func(t int) []string {
		return []string{"--lang=smt2", fmt.Sprintf("--tlimit=%d", t), "--full-saturate-quant"}
	}}
)

func runSolver(cfg solverCfg, file string, timeoutMs int) (string, float64, string) {
	return runSolverCtx(context.Background(), cfg, file, timeoutMs)
}

func runSolverCtx(parent context.Context, cfg solverCfg, file string, timeoutMs int) (string, float64, string) {
	ctx, cancel := context.WithTimeout(parent, time.Duration(timeoutMs+3000)*time.Millisecond)
	defer cancel()
	args := append(cfg.args(timeoutMs), file)
	cmd := exec.CommandContext(ctx, cfg.bin, args...)
	var out bytes.Buffer
	cmd.Stdout = &out
	cmd.Stderr = &out
	t0 := time.Now()
	cmd.Run()
	secs := time.Since(t0).Seconds()
	return out.String(), secs, cfg.name
}

func firstVerdict(out string) string {
	for _, l := range strings.Split(out, "\n") {
		l = strings.TrimSpace(l)
		switch l {
		case "unsat", "sat", "unknown", "timeout":
			return l
		}
		if strings.HasPrefix(l, "(error") {
			return "error"
		}
	}
	if strings.Contains(out, "interrupted") || strings.Contains(out, "timeout") {
		return "timeout"
	}
	return "error"
}

// dischargeVC: phase 1 one incremental z3 session for the whole function; phase 2 races the rest.
func dischargeVC(vc *VC, workDir string, quickMs, slowMs int, sem chan struct{}) {
	os.MkdirAll(workDir, 0o755)
	base := filepath.Join(workDir, sanitizeFile(vc.Func))
	// ---- phase 1: incremental sessions. A large function is split over several sessions that each replay the whole
	// assertion stream but only check their share of the obligations (interleaved), so they run in parallel.
	nsess := (len(vc.obls) + 119) / 120
	if nsess > 6 {
		nsess = 6
	}
	if nsess < 1 {
		nsess = 1
	}
	if keepFiles {
		var ix strings.Builder
		for oi, o := range vc.obls {
			ix.WriteString(fmt.Sprintf("%d %s\n", oi, o.Name))
		}
		os.WriteFile(base+".index.txt", []byte(ix.String()), 0o644)
	}
	var mu sync.Mutex
	var wg1 sync.WaitGroup
	for sidx := 0; sidx < nsess; sidx++ {
		wg1.Add(1)
		go func(sidx int) {
			defer wg1.Done()
			var b strings.Builder
			b.WriteString(prelude)
			for _, l := range vc.glines {
				b.WriteString(l)
				b.WriteByte('\n')
			}
			pos := 0
			mine := 0
			for oi, o := range vc.obls {
				if oi%nsess != sidx {
					continue
				}
				mine++
				for ; pos < o.NLines; pos++ {
					b.WriteString(vc.lines[pos])
					b.WriteByte('\n')
				}
				b.WriteString("(push 1)\n")
				b.WriteString("(assert " + o.Reach + ")\n")
				b.WriteString("(assert (not " + o.Goal + "))\n")
				b.WriteString(fmt.Sprintf("(echo \"@@ %d\")\n", oi))
				if o.Cover && o.PreReach != "" {
					// call-site covers: a shallow look is enough here (inconsistencies show up at once; a satisfiable
					// state would otherwise cost the whole timeout)
					b.WriteString(fmt.Sprintf("(set-option :timeout 200)\n(check-sat)\n(set-option :timeout %d)\n(pop 1)\n", quickMs))
				} else {
					b.WriteString("(check-sat)\n(pop 1)\n")
				}
			}
			f1 := fmt.Sprintf("%s.all%d.smt2", base, sidx)
			os.WriteFile(f1, []byte(b.String()), 0o644)
			sem <- struct{}{}
			total := quickMs * (mine + 1)
			ctx, cancel := context.WithTimeout(context.Background(), time.Duration(total+5000)*time.Millisecond)
			cmd := exec.CommandContext(ctx, z3new.bin, "-smt2", fmt.Sprintf("-t:%d", quickMs), "smt.auto_config=false", "smt.mbqi=false", f1)
			var out bytes.Buffer
			cmd.Stdout = &out
			cmd.Stderr = &out
			t0 := time.Now()
			cmd.Run()
			cancel()
			<-sem
			el := time.Since(t0).Seconds()
			if !keepFiles {
				os.Remove(f1)
			}
			// parse
			mu.Lock()
			defer mu.Unlock()
			lines := strings.Split(out.String(), "\n")
			cur := -1
			var got []*Obl
			for _, l := range lines {
				l = strings.TrimSpace(l)
				if strings.HasPrefix(l, "@@ ") {
					fmt.Sscanf(l, "@@ %d", &cur)
					continue
				}
				if cur >= 0 && cur < len(vc.obls) {
					o := vc.obls[cur]
					switch l {
					case "unsat", "sat", "unknown", "timeout":
						if o.Result == "" {
							o.Result = l
							o.Backend = z3new.name + "/incremental"
							got = append(got, o)
						}
					default:
						if strings.HasPrefix(l, "(error") && o.Result == "" {
							o.Result = "error"
							o.Output = l
							o.Backend = z3new.name + "/incremental"
						}
					}
				}
			}
			for _, o := range got {
				o.Secs = el / float64(len(got))
			}
		}(sidx)
	}
	wg1.Wait()
	// ---- phase 2: everything that is not decided as expected
	var wg sync.WaitGroup
	for i, o := range vc.obls {
		if o.Cover {
			// vacuity guard: E-matching alone rarely refutes; also ask the complete modes (short timeout)
			if o.Result == "unsat" && o.PreReach == "" {
				continue
			}
			if o.PreReach == "block" {
				continue // block covers: the incremental session's answer is all we ask for
			}
			if o.PreReach != "" && o.Result != "unsat" && !siteCoversComplete {
				continue // quick tier: call-site covers are decided by the E-matching session only
			}
		} else if o.Result == "unsat" {
			continue
		} else if knownQuick[o.Name] && o.Result != "" {
			continue
		}
		wg.Add(1)
		go func(i int, o *Obl) {
			defer wg.Done()
			file := fmt.Sprintf("%s.%d.smt2", base, i)
			var q strings.Builder
			q.WriteString(prelude)
			for _, l := range vc.glines {
				q.WriteString(l)
				q.WriteByte('\n')
			}
			for _, l := range vc.lines[:o.NLines] {
				q.WriteString(l)
				q.WriteByte('\n')
			}
			q.WriteString("(assert " + o.Reach + ")\n(assert (not " + o.Goal + "))\n(check-sat)\n")
			os.WriteFile(file, []byte(q.String()), 0o644)
			type res struct {
				verdict, out, backend string
				secs                  float64
			}
			cfgs := []solverCfg{z3new, z3old, cvc5, z3newDefault}
			tmo := slowMs
			if o.Cover {
				cfgs = []solverCfg{z3newDefault, cvc5}
				tmo = 2500
				if !siteCoversComplete {
					// quick tier: one complete-mode look of a second (the thorough tier asks both solvers for longer)
					cfgs = []solverCfg{z3newDefault}
					tmo = 1000
				}
			}
			ch := make(chan res, len(cfgs))
			// the first solver to discharge the obligation wins; the others are stopped
			rctx, rcancel := context.WithCancel(context.Background())
			defer rcancel()
			for _, c := range cfgs {
				go func(c solverCfg) {
					sem <- struct{}{}
					defer func() { <-sem }()
					if rctx.Err() != nil {
						ch <- res{"cancelled", "", c.name, 0}
						return
					}
					out, secs, name := runSolverCtx(rctx, c, file, tmo)
					v := firstVerdict(out)
					if rctx.Err() != nil && v != "unsat" && v != "sat" {
						v = "cancelled"
					}
					ch <- res{v, out, name, secs}
				}(c)
			}
			var all []res
			decided := false
			for range cfgs {
				r := <-ch
				all = append(all, r)
				if o.Cover {
					if r.verdict == "unsat" {
						o.Result, o.Backend, o.Secs = "unsat", r.backend, r.secs
						decided = true
					} else if !decided && r.verdict == "sat" {
						o.Result, o.Backend, o.Secs = "sat", r.backend, r.secs
					}
					continue
				}
				if r.verdict == "unsat" && !decided {
					o.Result, o.Backend, o.Secs = "unsat", r.backend, r.secs
					decided = true
					rcancel()
				}
			}
			if o.Cover {
				if !keepFiles {
					os.Remove(file)
				}
				if o.Result == "unsat" && o.PreReach != "" {
					// Unreachable after the call. Dead code (already unreachable before the call) is fine; an
					// inconsistency introduced by the assumed contract is not. Decide by unsat core: name the
					// assertions the call contributed; the state is contract-inconsistent iff the core needs one.
					pfile := fmt.Sprintf("%s.%d.core.smt2", base, i)
					var pq strings.Builder
					pq.WriteString("(set-option :produce-unsat-cores true)\n(set-option :smt.core.minimize true)\n")
					pq.WriteString(prelude)
					for _, l := range vc.glines {
						pq.WriteString(l)
						pq.WriteByte('\n')
					}
					for k, l := range vc.lines[:o.NLines] {
						// (definitions of the reach flag "r!n = reach && requires" are not assumptions: the requires is an obligation)
						if k >= o.PreNLines && strings.HasPrefix(l, "(assert ") && !strings.HasPrefix(l, "(assert (= r!") && strings.HasSuffix(l, ")") && !strings.Contains(l, "\n") {
							pq.WriteString(fmt.Sprintf("(assert (! %s :named CALLFACT%d))\n", l[len("(assert "):len(l)-1], k))
						} else {
							pq.WriteString(l)
							pq.WriteByte('\n')
						}
					}
					pq.WriteString("(assert " + o.Reach + ")\n(check-sat)\n(get-unsat-core)\n")
					os.WriteFile(pfile, []byte(pq.String()), 0o644)
					sem <- struct{}{}
					out, _, _ := runSolver(z3new, pfile, 10000)
					<-sem
					if firstVerdict(out) == "unsat" && !strings.Contains(out, "CALLFACT") {
						o.Result = "dead"
					} else if firstVerdict(out) != "unsat" {
						o.Result = "unknown" // could not reproduce: no alarm
					}
					if !keepFiles {
						os.Remove(pfile)
					}
				}
				return
			}
			if !decided {
				// report the most informative verdict
				best := all[0]
				for _, r := range all {
					if r.verdict == "sat" {
						best = r
					}
				}
				o.Result, o.Backend, o.Secs = best.verdict, best.backend, best.secs
				var sb strings.Builder
				for _, r := range all {
					first := strings.SplitN(strings.TrimSpace(r.out), "\n", 2)[0]
					sb.WriteString(fmt.Sprintf("%s: %s (%.2fs) %s\n", r.backend, r.verdict, r.secs, first))
				}
				o.Output = sb.String()
				o.Output += "query: " + file + "\n"
			} else if !o.Cover && !keepFiles {
				os.Remove(file)
			}
		}(i, o)
	}
	wg.Wait()
}

func indexOf(obls []*Obl, o *Obl) int {
	for i, p := range obls {
		if p == o {
			return i
		}
	}
	return -1
}

func sanitizeFile(s string) string {
	var b strings.Builder
	for _, c := range s {
		if c >= 'a' && c <= 'z' || c >= 'A' && c <= 'Z' || c >= '0' && c <= '9' || c == '.' || c == '_' || c == '-' {
			b.WriteRune(c)
		} else {
			b.WriteByte('_')
		}
	}
	return b.String()
}
