package main

// solve.go: discharge obligations with z3 4.8.12, z3 5.1.0 and cvc5.

import (
	"bytes"
	"context"
	"fmt"
	"os"
	"os/exec"
	"path/filepath"
	"strings"
	"sync"
	"time"
)

type solverCfg struct {
	name string
	bin  string
	args func(timeoutMs int) []string
	pre  string // text placed before the prelude
}

var keepFiles bool

var (
	z3new = solverCfg{name: "z3-5.1.0/ematch", bin: "z3-new", args: func(t int) []string {
		return []string{"-smt2", fmt.Sprintf("-t:%d", t), "smt.auto_config=false", "smt.mbqi=false"}
	}}
	z3newDefault = solverCfg{name: "z3-5.1.0/default", bin: "z3-new", args: func(t int) []string { return []string{"-smt2", fmt.Sprintf("-t:%d", t)} }}
	z3old        = solverCfg{name: "z3-4.8.12/ematch", bin: "/usr/bin/z3", args: func(t int) []string {
		return []string{"-smt2", fmt.Sprintf("-t:%d", t), "smt.auto_config=false", "smt.mbqi=false"}
	}}
	cvc5 = solverCfg{name: "cvc5-1.0.3", bin: "cvc5", args: func(t int) []string {
		return []string{"--lang=smt2", fmt.Sprintf("--tlimit=%d", t), "--full-saturate-quant"}
	}}
)

func runSolver(cfg solverCfg, file string, timeoutMs int) (string, float64, string) {
	ctx, cancel := context.WithTimeout(context.Background(), time.Duration(timeoutMs+3000)*time.Millisecond)
	defer cancel()
	args := append(cfg.args(timeoutMs), file)
	cmd := exec.CommandContext(ctx, cfg.bin, args...)
	var out bytes.Buffer
	cmd.Stdout = &out
	cmd.Stderr = &out
	t0 := time.Now()
	cmd.Run()
	secs := time.Since(t0).Seconds()
	return out.String(), secs, cfg.name
}

func firstVerdict(out string) string {
	for _, l := range strings.Split(out, "\n") {
		l = strings.TrimSpace(l)
		switch l {
		case "unsat", "sat", "unknown", "timeout":
			return l
		}
		if strings.HasPrefix(l, "(error") {
			return "error"
		}
	}
	if strings.Contains(out, "interrupted") || strings.Contains(out, "timeout") {
		return "timeout"
	}
	return "error"
}

// dischargeVC: phase 1 one incremental z3 session for the whole function; phase 2 races the rest.
func dischargeVC(vc *VC, workDir string, quickMs, slowMs int, sem chan struct{}) {
	os.MkdirAll(workDir, 0o755)
	base := filepath.Join(workDir, sanitizeFile(vc.Func))
	// ---- phase 1
	var b strings.Builder
	b.WriteString(prelude)
	for _, l := range vc.glines {
		b.WriteString(l)
		b.WriteByte('\n')
	}
	pos := 0
	for _, o := range vc.obls {
		for ; pos < o.NLines; pos++ {
			b.WriteString(vc.lines[pos])
			b.WriteByte('\n')
		}
		b.WriteString("(push 1)\n")
		b.WriteString("(assert " + o.Reach + ")\n")
		b.WriteString("(assert (not " + o.Goal + "))\n")
		b.WriteString(fmt.Sprintf("(echo \"@@ %d\")\n", indexOf(vc.obls, o)))
		b.WriteString("(check-sat)\n(pop 1)\n")
	}
	f1 := base + ".all.smt2"
	os.WriteFile(f1, []byte(b.String()), 0o644)
	sem <- struct{}{}
	total := quickMs * (len(vc.obls) + 1)
	ctx, cancel := context.WithTimeout(context.Background(), time.Duration(total+5000)*time.Millisecond)
	cmd := exec.CommandContext(ctx, z3new.bin, "-smt2", fmt.Sprintf("-t:%d", quickMs), "smt.auto_config=false", "smt.mbqi=false", f1)
	var out bytes.Buffer
	cmd.Stdout = &out
	cmd.Stderr = &out
	t0 := time.Now()
	cmd.Run()
	cancel()
	<-sem
	el := time.Since(t0).Seconds()
	// parse
	lines := strings.Split(out.String(), "\n")
	cur := -1
	n1 := 0
	for _, l := range lines {
		l = strings.TrimSpace(l)
		if strings.HasPrefix(l, "@@ ") {
			fmt.Sscanf(l, "@@ %d", &cur)
			continue
		}
		if cur >= 0 && cur < len(vc.obls) {
			o := vc.obls[cur]
			switch l {
			case "unsat", "sat", "unknown", "timeout":
				if o.Result == "" {
					o.Result = l
					o.Backend = z3new.name + "/incremental"
					n1++
				}
			default:
				if strings.HasPrefix(l, "(error") && o.Result == "" {
					o.Result = "error"
					o.Output = l
					o.Backend = z3new.name + "/incremental"
				}
			}
		}
	}
	if n1 > 0 {
		per := el / float64(n1)
		for _, o := range vc.obls {
			if o.Backend == z3new.name+"/incremental" {
				o.Secs = per
			}
		}
	}
	// ---- phase 2: everything that is not decided as expected
	var wg sync.WaitGroup
	for i, o := range vc.obls {
		if o.Cover {
			// vacuity guard: E-matching alone rarely refutes; also ask the complete modes (short timeout)
			if o.Result == "unsat" {
				continue
			}
		} else if o.Result == "unsat" {
			continue
		}
		wg.Add(1)
		go func(i int, o *Obl) {
			defer wg.Done()
			file := fmt.Sprintf("%s.%d.smt2", base, i)
			var q strings.Builder
			q.WriteString(prelude)
			for _, l := range vc.glines {
				q.WriteString(l)
				q.WriteByte('\n')
			}
			for _, l := range vc.lines[:o.NLines] {
				q.WriteString(l)
				q.WriteByte('\n')
			}
			q.WriteString("(assert " + o.Reach + ")\n(assert (not " + o.Goal + "))\n(check-sat)\n")
			os.WriteFile(file, []byte(q.String()), 0o644)
			type res struct {
				verdict, out, backend string
				secs                  float64
			}
			cfgs := []solverCfg{z3new, z3old, cvc5, z3newDefault}
			tmo := slowMs
			if o.Cover {
				cfgs = []solverCfg{z3newDefault, cvc5}
				tmo = 2500
			}
			ch := make(chan res, len(cfgs))
			for _, c := range cfgs {
				go func(c solverCfg) {
					sem <- struct{}{}
					defer func() { <-sem }()
					out, secs, name := runSolver(c, file, tmo)
					ch <- res{firstVerdict(out), out, name, secs}
				}(c)
			}
			var all []res
			decided := false
			for range cfgs {
				r := <-ch
				all = append(all, r)
				if o.Cover {
					if r.verdict == "unsat" {
						o.Result, o.Backend, o.Secs = "unsat", r.backend, r.secs
						decided = true
					} else if !decided && r.verdict == "sat" {
						o.Result, o.Backend, o.Secs = "sat", r.backend, r.secs
					}
					continue
				}
				if r.verdict == "unsat" && !decided {
					o.Result, o.Backend, o.Secs = "unsat", r.backend, r.secs
					decided = true
				}
			}
			if o.Cover {
				if !keepFiles {
					os.Remove(file)
				}
				return
			}
			if !decided {
				// report the most informative verdict
				best := all[0]
				for _, r := range all {
					if r.verdict == "sat" {
						best = r
					}
				}
				o.Result, o.Backend, o.Secs = best.verdict, best.backend, best.secs
				var sb strings.Builder
				for _, r := range all {
					first := strings.SplitN(strings.TrimSpace(r.out), "\n", 2)[0]
					sb.WriteString(fmt.Sprintf("%s: %s (%.2fs) %s\n", r.backend, r.verdict, r.secs, first))
				}
				o.Output = sb.String()
				o.Output += "query: " + file + "\n"
			} else if !o.Cover && !keepFiles {
				os.Remove(file)
			}
		}(i, o)
	}
	wg.Wait()
}

func indexOf(obls []*Obl, o *Obl) int {
	for i, p := range obls {
		if p == o {
			return i
		}
	}
	return -1
}

func sanitizeFile(s string) string {
	var b strings.Builder
	for _, c := range s {
		if c >= 'a' && c <= 'z' || c >= 'A' && c <= 'Z' || c >= '0' && c <= '9' || c == '.' || c == '_' || c == '-' {
			b.WriteRune(c)
		} else {
			b.WriteByte('_')
		}
	}
	return b.String()
}
