package main

// calls.go: builtins, callee resolution, contract application, inlining.

import (
	"os"
	"fmt"
	"go/token"
	"go/types"
	"sort"
	"strings"

	"golang.org/x/tools/go/ssa"
)

func (x *Exec) setResult(res ssa.Value, sig *types.Signature, terms []string) {
	if res == nil {
		return
	}
	switch sig.Results().Len() {
	case 0:
	case 1:
		x.vals[res] = terms[0]
	default:
		x.tups[res] = terms
	}
}

func (x *Exec) call(st *State, in ssa.Instruction, cc *ssa.CallCommon, res ssa.Value) {
	vc := x.vc
	if b, ok := cc.Value.(*ssa.Builtin); ok {
		if x.con != nil && len(x.con.Asserts) > 0 {
			site := fmt.Sprintf("builtin %s#%d", b.Name(), x.siteOrdinal(in, "builtin "+b.Name()))
			x.markSite(site)
			for _, cl := range x.con.Asserts[site] {
				env := x.newEnv(st, x.oldOf(st))
				if in != nil {
					env.atBlock = in.Block()
				}
				for i, a := range cc.Args {
					env.names[fmt.Sprintf("arg%d", i)] = val{x.value(a), a.Type(), x.vc.sortOf(a.Type())}
				}
				t := env.evalBool(cl.Expr)
				x.obligeClause("assert", site+"/"+clauseLabel(cl), st.reach, t, cl)
			}
		}
		x.builtin(st, in, b, cc, res)
		return
	}
	sig := cc.Signature()
	// argument terms
	var args []val
	var recv *val
	if cc.IsInvoke() {
		rv := x.value(cc.Value)
		recv = &val{rv, cc.Value.Type(), sAny}
		x.implicit(st, in, "nil", not(eq(app("a_typ", rv), "0")), "method call on nil interface")
	}
	for _, a := range cc.Args {
		args = append(args, val{x.value(a), a.Type(), vc.sortOf(a.Type())})
	}
	tgt := x.g.resolve(x, cc)
	siteName := tgt.display
	ord := x.siteOrdinal(in, "call "+siteName)
	site := fmt.Sprintf("call %s#%d", siteName, ord)
	x.markSite(site)
	x.noteSiteHit(st, site)
	// site assertions from the caller's contract
	if x.con != nil {
		for _, cl := range x.con.Asserts[site] {
			env := x.newEnv(st, x.oldOf(st))
			if in != nil {
				env.atBlock = in.Block()
			}
			env.bindCallArgs(tgt, recv, args)
			t := env.evalBool(cl.Expr)
			x.obligeClause("assert", site+"/"+clauseLabel(cl), st.reach, t, cl)
		}
		for _, ef := range x.con.SiteSets[site] {
			env := x.newEnv(st, x.oldOf(st))
			if in != nil {
				env.atBlock = in.Block()
			}
			env.bindCallArgs(tgt, recv, args)
			v := env.eval(ef.Expr)
			comp := env.compByName("ghost:" + ef.Name)
			if comp == "" {
				panic(contractErr("set: unknown ghost " + ef.Name))
			}
			vc.set(st, comp, v.t)
		}
	}
	if tgt.dynamic && !cc.IsInvoke() && !x.runningDefer {
		fv := x.value(cc.Value)
		if _, isClosure := cc.Value.(*ssa.MakeClosure); !isClosure {
			if _, isFn := cc.Value.(*ssa.Function); !isFn {
				x.implicit(st, in, "nilfunc", not(eq(fv, "0")), "call of nil function value")
			}
		}
	}
	x.g.noteCall(x, tgt, in)
	// monitor release: the invariant must hold when the lock is given up
	if md, base, sty := x.monitorLockArg(cc); md != nil && (strings.HasSuffix(tgt.display, ".Unlock") || strings.HasSuffix(tgt.display, ".RUnlock")) {
		x.monitorRelease(st, in, md, sty, base)
	}
	switch {
	case tgt.con != nil:
		if tgt.con.NoBody {
			vc.note("assumed contract of dependency (stub): " + tgt.display)
		} else if tgt.con.Trusted {
			vc.note("trusted contract (body not verified against it): " + tgt.display + " " + strings.Join(tgt.con.Notes, "; "))
		} else if strings.HasPrefix(tgt.display, "iface ") || tgt.dynamic {
			vc.note("contract assumed for dynamic callee: " + tgt.display)
		}
		if len(tgt.con.Locks) > 0 {
			x.callerAcquire(st, tgt, recv, args, site)
		}
		preReach, preN := st.reach, len(vc.lines)
		results := x.applyContract(st, in, tgt, recv, args, sig, site, cc)
		x.setResult(res, sig, results)
		if res != nil && tgt.con.FlagResult {
			if x.flagAlias == nil {
				x.flagAlias = map[ssa.Value]bool{}
			}
			x.flagAlias[res] = true
		}
		if x.depth == 0 && os.Getenv("GVC_NOSITECOVER") == "" {
			vc.oblige(&Obl{Name: x.prefix + "/cover/after_" + strings.ReplaceAll(site, " ", "_"), Kind: "cover", Props: x.props, Reach: st.reach, Goal: "false", Cover: true,
				PreReach: preReach, PreNLines: preN, Src: "assumed contract of " + tgt.display + " consistent with the caller's state"})
		}
		if md, base, sty := x.monitorLockArg(cc); md != nil && (strings.HasSuffix(tgt.display, ".Lock") || strings.HasSuffix(tgt.display, ".RLock")) {
			x.monitorAcquire(st, md, sty, base)
		}
	case tgt.fn != nil && x.g.inlinable(x, tgt.fn):
		results := x.inline(st, tgt, args)
		x.setResult(res, sig, results)
		if res != nil && x.lastInlineFlag {
			if x.flagAlias == nil {
				x.flagAlias = map[ssa.Value]bool{}
			}
			x.flagAlias[res] = true
		}
	default:
		// unknown or external
		if tgt.external {
			vc.note("external callee without stub assumed not to modify modelled state; result arbitrary: " + tgt.display)
		} else {
			vc.note("unknown callee: all modelled state havocked: " + tgt.display + " (in " + x.fn.String() + ")")
			vc.havocAll(st)
		}
		if tgt.external {
			on := vc.getNext(st)
			nn := vc.fresh("next", sInt)
			vc.assert(app(">=", nn, on))
			st.comp["next"] = nn
			x.rtypeAfterCall(st, nil, tgt, on, nn)
		}
		var results []string
		for i := 0; i < sig.Results().Len(); i++ {
			rt := sig.Results().At(i).Type()
			c := vc.fresh("ret_"+sanitize(tgt.display), vc.sortOf(rt))
			x.assumeType(st, c, rt)
			results = append(results, c)
		}
		x.setResult(res, sig, results)
	}
}

type target struct {
	con      *Contract
	fn       *ssa.Function
	closure  *ssa.MakeClosure
	display  string // short name used for call-site keys and notes
	external bool
	dynamic  bool
	params   []string
	recvName string
	pkg      *types.Package // scope for resolving names in the contract
}

func (x *Exec) applyContract(st *State, in ssa.Instruction, tgt *target, recv *val, args []val, sig *types.Signature, site string, cc *ssa.CallCommon) []string {
	vc := x.vc
	c := tgt.con
	pre := st.clone()
	// 1. requires
	for _, cl := range c.Req {
		env := x.newEnvFor(st, st, tgt.pkg)
		env.bindCallArgs(tgt, recv, args)
		env.callee = tgt
		if tgt.closure != nil {
			x.bindClosure(env, tgt.fn, tgt.closure)
		}
		t := env.evalBool(cl.Expr)
		parts := splitAnd(t)
		for pi, g := range parts {
			nm := clauseLabel(cl)
			if len(parts) > 1 {
				nm = fmt.Sprintf("%s.%d", nm, pi)
			}
			props := x.props
			if len(cl.Props) > 0 {
				props = cl.Props
			}
			o := &Obl{Name: x.prefix + "/pre/" + site + "/" + nm, Kind: "pre", Props: props, Reach: st.reach, Goal: g, Src: "requires " + cl.Text}
			if in != nil && in.Pos().IsValid() {
				o.Pos = x.g.fset.Position(in.Pos())
			}
			vc.oblige(o)
		}
		r := vc.fresh("r", sBool)
		vc.assert(eq(r, and(st.reach, t)))
		st.reach = r
	}
	// 2. frame
	envPre := x.newEnvFor(pre, pre, tgt.pkg)
	envPre.bindCallArgs(tgt, recv, args)
	envPre.callee = tgt
	if tgt.closure != nil {
		x.bindClosure(envPre, tgt.fn, tgt.closure)
	}
	for _, m := range c.Mods {
		x.applyMod(st, envPre, m)
	}
	if len(c.Locks) > 0 || c.TouchesOwned {
		var mds []*MonitorDef
		if c.TouchesOwned {
			mds = x.g.cs.Monitors
		} else {
			for _, le := range c.Locks {
				env := x.newEnvFor(pre, pre, tgt.pkg)
				env.bindCallArgs(tgt, recv, args)
				env.callee = tgt
				if tgt.closure != nil {
					x.bindClosure(env, tgt.fn, tgt.closure)
				}
				o := env.eval(le)
				if pt, ok := o.typ.Underlying().(*types.Pointer); ok {
					if md := x.g.monitorOfType(pt.Elem()); md != nil {
						mds = append(mds, md)
					}
				}
			}
		}
		x.havocOwned(st, mds)
		// the callee's own writes to the protected fields: `pre` is the state it found when it took the lock (what
		// its old() refers to); what it leaves behind is a second unknown, constrained by the invariant it
		// re-established at release and by its postcondition
		for _, le := range c.Locks {
			env := x.newEnvFor(pre, pre, tgt.pkg)
			env.bindCallArgs(tgt, recv, args)
			env.callee = tgt
			if tgt.closure != nil {
				x.bindClosure(env, tgt.fn, tgt.closure)
			}
			o := env.eval(le)
			if pt, ok := o.typ.Underlying().(*types.Pointer); ok {
				if md := x.g.monitorOfType(pt.Elem()); md != nil {
					x.havocProtectedUnlessHeld(st, md, pt.Elem(), o.t)
				}
			}
		}
	}
	// 2b. callbacks the callee may invoke
	for _, ic := range c.Invokes {
		x.applyInvoke(st, pre, in, tgt, ic, recv, args, cc, site)
	}
	// allocation may have happened
	oldNext := vc.getNext(st)
	nn := vc.fresh("next", sInt)
	vc.assert(app(">=", nn, oldNext))
	st.comp["next"] = nn
	x.rtypeAfterCall(st, c, tgt, oldNext, nn)
	// 3. results
	var results []string
	for i := 0; i < sig.Results().Len(); i++ {
		rt := sig.Results().At(i).Type()
		r := vc.fresh("ret_"+sanitize(tgt.display), vc.sortOf(rt))
		x.assumeType(st, r, rt)
		x.assumeUnowned(st, r, rt)
		results = append(results, r)
	}
	// 3a. retained slices: their backing arrays are frozen from now on
	for _, fe := range c.Freezes {
		env := x.newEnvFor(pre, pre, tgt.pkg)
		env.bindCallArgs(tgt, recv, args)
		env.callee = tgt
		if tgt.closure != nil {
			x.bindClosure(env, tgt.fn, tgt.closure)
		}
		v := env.eval(fe)
		if v.srt != sSlice {
			panic(contractErr("freezes: not a slice"))
		}
		vc.regComp("Frozen", "(Array Int Bool)")
		x.g.usesFrozen = true
		vc.set(st, "Frozen", ite(eq(app("s_arr", v.t), "0"), vc.get(st, "Frozen"), store(vc.get(st, "Frozen"), app("s_arr", v.t), "true")))
	}
	// 3b. declared ghost effects
	for _, ef := range c.Effects {
		env := x.newEnvFor(pre, pre, tgt.pkg)
		env.bindCallArgs(tgt, recv, args)
		env.callee = tgt
		if tgt.closure != nil {
			x.bindClosure(env, tgt.fn, tgt.closure)
		}
		env.bindResults(sig, results)
		v := env.eval(ef.Expr)
		comp := env.compByName("ghost:" + ef.Name)
		if comp == "" {
			panic(contractErr("effect: unknown ghost " + ef.Name))
		}
		vc.set(st, comp, v.t)
	}
	// 4. ensures
	for _, cl := range c.Ens {
		if strings.Contains(cl.Text, "hits(") {
			continue // about the callee's own activation (its call-site counters): nothing a caller can use
		}
		env := x.newEnvFor(st, pre, tgt.pkg)
		env.bindCallArgs(tgt, recv, args)
		env.callee = tgt
		if tgt.closure != nil {
			x.bindClosure(env, tgt.fn, tgt.closure)
		}
		env.bindResults(sig, results)
		t := env.evalBool(cl.Expr)
		vc.assert(implies(st.reach, t))
	}
	if c.Blocking {
		x.blockingOp(in, "blocking callee "+tgt.display)
	}
	return results
}

// applyMod havocs what a modifies item names.
func (x *Exec) applyMod(st *State, env *Env, m *ModItem) {
	vc := x.vc
	switch {
	case m.All:
		vc.havocAll(st)
	case m.MapHeap:
		mv := env.eval(m.Expr)
		mt, ok := mv.typ.Underlying().(*types.Map)
		if !ok {
			panic(contractErr("mapheap() of non-map"))
		}
		for _, comp := range []string{vc.mapDom(mt), vc.mapVal(mt)} {
			st.comp[comp] = vc.fresh(strings.Trim(comp, "|")+"_h", vc.reg().sorts[comp])
		}
	case m.Heap != "":
		comps := env.compsByName(m.Heap)
		if len(comps) == 0 {
			panic(contractErr("modifies: unknown component " + m.Heap))
		}
		for _, comp := range comps {
			st.comp[comp] = vc.fresh(strings.Trim(comp, "|")+"_h", vc.reg().sorts[comp])
		}
	default:
		for _, cr := range env.modTargets(m) {
			cur := vc.get(st, cr.comp)
			srt := vc.reg().sorts[cr.comp]
			es := strings.TrimSuffix(strings.TrimPrefix(srt, "(Array Int "), ")")
			f := vc.fresh("hv", es)
			if m.MapOf || m.Elems {
				// a nil map / nil slice has no contents to modify
				vc.set(st, cr.comp, ite(eq(cr.ref, "0"), cur, store(cur, cr.ref, f)))
			} else {
				vc.set(st, cr.comp, store(cur, cr.ref, f))
			}
		}
	}
}

// monitorLockArg: if the call is sync.(RW)Mutex.(R)Lock/(R)Unlock on the lock field of a monitor type, return it.
func (x *Exec) monitorLockArg(cc *ssa.CallCommon) (*MonitorDef, string, types.Type) {
	f, ok := cc.Value.(*ssa.Function)
	if !ok || len(cc.Args) != 1 || f.Pkg == nil || f.Pkg.Pkg.Path() != "sync" {
		return nil, "", nil
	}
	fa, ok := cc.Args[0].(*ssa.FieldAddr)
	if !ok {
		return nil, "", nil
	}
	pt := fa.X.Type().Underlying().(*types.Pointer).Elem()
	md := x.g.monitorFor(pt, fa.Field)
	if md == nil {
		return nil, "", nil
	}
	return md, x.value(fa.X), pt
}

func (g *Gen) monitorFor(pt types.Type, field int) *MonitorDef {
	n, ok := pt.(*types.Named)
	if !ok {
		return nil
	}
	sty, ok := pt.Underlying().(*types.Struct)
	if !ok {
		return nil
	}
	for _, md := range g.cs.Monitors {
		if md.Pkg == n.Obj().Pkg().Path() && sameStructType(n, md.Type) && sty.Field(field).Name() == md.Lock {
			return md
		}
	}
	return nil
}

func (g *Gen) monitorOfType(pt types.Type) *MonitorDef {
	n, ok := pt.(*types.Named)
	if !ok {
		return nil
	}
	for _, md := range g.cs.Monitors {
		if md.Pkg == n.Obj().Pkg().Path() && sameStructType(n, md.Type) {
			return md
		}
	}
	return nil
}

// havocProtected: other threads may have changed the protected fields of obj (subject to the invariant).
func (x *Exec) havocProtected(st *State, md *MonitorDef, sty types.Type, base string) {
	vc := x.vc
	s := sty.Underlying().(*types.Struct)
	for _, fn := range md.Fields {
		for i := 0; i < s.NumFields(); i++ {
			if s.Field(i).Name() != fn {
				continue
			}
			h := vc.fieldHeap(sty, i)
			c := vc.fresh("mon_"+fn, vc.sortOf(s.Field(i).Type()))
			x.assumeType(st, c, s.Field(i).Type())
			vc.set(st, h, store(vc.get(st, h), base, c))
			// what a protected field points to is owned by the monitor (not reachable by clients)
			if id := ownedID(s.Field(i).Type(), c); id != "" {
				vc.regComp("Owned", "(Array Int Bool)")
				vc.assert(implies(st.reach, or(eq(id, "0"), sel(vc.get(st, "Owned"), id))))
			}
			// references stored in a protected map designate objects that exist now (heap closure)
			if mt, ok := s.Field(i).Type().Underlying().(*types.Map); ok {
				switch mt.Elem().Underlying().(type) {
				case *types.Pointer, *types.Map, *types.Chan:
					mv := vc.get(st, vc.mapVal(mt))
					vc.assert(implies(st.reach, fmt.Sprintf("(forall ((k %s)) (! (< (select (select %s %s) k) %s) :pattern ((select (select %s %s) k))))", vc.sortOf(mt.Key()), mv, c, vc.getNext(st), mv, c)))
				}
			}
		}
	}
	if md.Inv != "" {
		env := x.newEnvFor(st, st, x.g.pkgByPath(md.Pkg))
		env.names["$obj"] = val{base, types.NewPointer(sty), sInt}
		t := env.evalBool(&CExpr{Op: "call", Name: md.Inv, Args: []*CExpr{{Op: "ident", Name: "$obj"}}})
		vc.assert(implies(st.reach, t))
	}
}

// heldTerm: Held[lock of base] for a monitor object, "" if the lock field is not found.
func (x *Exec) heldTerm(st *State, md *MonitorDef, sty types.Type, base string) string {
	s, ok := sty.Underlying().(*types.Struct)
	if !ok {
		return ""
	}
	for i := 0; i < s.NumFields(); i++ {
		if s.Field(i).Name() == md.Lock {
			x.vc.regComp("Held", "(Array Int Int)")
			return sel(x.vc.get(st, "Held"), x.vc.subRef(sty, i, base))
		}
	}
	return ""
}

func (x *Exec) havocProtectedUnlessHeld(st *State, md *MonitorDef, sty types.Type, base string) {
	vc := x.vc
	s := sty.Underlying().(*types.Struct)
	li := -1
	for i := 0; i < s.NumFields(); i++ {
		if s.Field(i).Name() == md.Lock {
			li = i
		}
	}
	if li < 0 {
		x.havocProtected(st, md, sty, base)
		return
	}
	vc.regComp("Held", "(Array Int Int)")
	held := not(eq(sel(vc.get(st, "Held"), vc.subRef(sty, li, base)), "0"))
	before := st.clone()
	x.havocProtected(st, md, sty, base)
	// keep the old values where the lock was held
	for _, fn := range md.Fields {
		for i := 0; i < s.NumFields(); i++ {
			if s.Field(i).Name() != fn {
				continue
			}
			h := vc.fieldHeap(sty, i)
			vc.set(st, h, ite(held, vc.get(before, h), vc.get(st, h)))
		}
	}
	// The invariant holds for the state the callee leaves behind in either case. If this thread held the lock, the
	// callee can only have returned when both hold it in read mode (sync locks are not reentrant: every other
	// combination never returns - partial correctness); then nobody wrote the protected fields since this thread's own
	// acquisition, when the invariant held.
	if md.Inv != "" {
		env := x.newEnvFor(st, st, x.g.pkgByPath(md.Pkg))
		env.names["$obj"] = val{base, types.NewPointer(sty), sInt}
		t := env.evalBool(&CExpr{Op: "call", Name: md.Inv, Args: []*CExpr{{Op: "ident", Name: "$obj"}}})
		vc.assert(implies(st.reach, t))
	}
}

func (x *Exec) monitorAcquire(st *State, md *MonitorDef, sty types.Type, base string) {
	// a function that acquires a monitor must say so (`locks <obj>`), so that its callers forget what they knew
	if x.depth == 0 && x.con != nil {
		var alts []string
		for _, le := range x.con.Locks {
			env := x.newEnv(x.oldOf(st), x.oldOf(st))
			alts = append(alts, eq(env.eval(le).t, base))
		}
		x.vc.oblige(&Obl{Name: fmt.Sprintf("%s/locks-declared/%s.%s", x.prefix, md.Type, md.Lock), Kind: "locks-declared", Props: x.props, Reach: st.reach, Goal: or(alts...),
			Src: "monitor " + md.Type + "." + md.Lock + " acquired: the contract must declare `locks <object>`"})
	}
	if x.depth == 0 {
		if x.acquiredObjs == nil {
			x.acquiredObjs = map[string]bool{}
		}
		x.acquiredObjs[base] = true
	}
	x.havocProtected(st, md, sty, base)
	// the contract of a function that `locks` this object is relative to the acquisition state
	if x.depth == 0 && x.con != nil && len(x.con.Locks) > 0 {
		snap := st.clone()
		snap.entry = nil
		st.entry = snap
	}
}

// ownedID: the object id (map ref / backing array id) a protected field value designates, "" if none.
func ownedID(t types.Type, v string) string {
	switch t.Underlying().(type) {
	case *types.Map:
		return v
	case *types.Slice:
		return app("s_arr", v)
	}
	return ""
}

func (x *Exec) monitorRelease(st *State, in ssa.Instruction, md *MonitorDef, sty types.Type, base string) {
	vc := x.vc
	ss := sty.Underlying().(*types.Struct)
	for _, fn := range md.Fields {
		for i := 0; i < ss.NumFields(); i++ {
			if ss.Field(i).Name() != fn {
				continue
			}
			v := sel(vc.get(st, vc.fieldHeap(sty, i)), base)
			id := ownedID(ss.Field(i).Type(), v)
			if id == "" {
				continue
			}
			vc.regComp("Owned", "(Array Int Bool)")
			idc := vc.name("ownid", sInt, id)
			goal := or(eq(idc, "0"), sel(vc.get(st, "Owned"), idc), app(">=", idc, x.entryNext))
			o := &Obl{Name: fmt.Sprintf("%s/monitor-owns/%s.%s", x.prefix, md.Type, fn), Kind: "monitor-owns", Props: x.props, Reach: st.reach, Goal: goal,
				Src: "object stored in protected field " + fn + " at release is owned by the monitor or was allocated by this activation"}
			if in != nil && in.Pos().IsValid() {
				o.Pos = x.g.fset.Position(in.Pos())
			}
			vc.oblige(o)
			vc.set(st, "Owned", store(vc.get(st, "Owned"), idc, "true"))
		}
	}
	if md.Inv == "" {
		return
	}
	env := x.newEnvFor(st, st, x.g.pkgByPath(md.Pkg))
	env.names["$obj"] = val{base, types.NewPointer(sty), sInt}
	t := env.evalBool(&CExpr{Op: "call", Name: md.Inv, Args: []*CExpr{{Op: "ident", Name: "$obj"}}})
	for i, g := range splitAnd(t) {
		o := &Obl{Name: fmt.Sprintf("%s/monitor-inv/%s.%d", x.prefix, md.Inv, i), Kind: "monitor-inv", Props: x.props, Reach: st.reach, Goal: g, Src: "monitor invariant " + md.Inv + " at release of " + md.Type + "." + md.Lock}
		if in != nil && in.Pos().IsValid() {
			o.Pos = x.g.fset.Position(in.Pos())
		}
		x.vc.oblige(o)
	}
}

// havocOwned: a callee running inside a monitor may change objects owned by monitors (and make new ones owned).
func (x *Exec) havocOwned(st *State, mds []*MonitorDef) {
	vc := x.vc
	vc.regComp("Owned", "(Array Int Bool)")
	owned := vc.get(st, "Owned")
	// only the kinds of objects these monitors can own: the maps / backing arrays their protected fields hold
	nameSet := map[string]bool{}
	refVals := map[string]string{} // map-value heaps holding references -> key sort
	for _, md := range mds {
		p := x.g.pkgByPath(md.Pkg)
		if p == nil {
			continue
		}
		obj := p.Scope().Lookup(md.Type)
		if obj == nil {
			continue
		}
		s, ok := obj.Type().Underlying().(*types.Struct)
		if !ok {
			continue
		}
		for _, fn := range md.Fields {
			for i := 0; i < s.NumFields(); i++ {
				if s.Field(i).Name() != fn {
					continue
				}
				switch u := s.Field(i).Type().Underlying().(type) {
				case *types.Map:
					nameSet[vc.mapDom(u)] = true
					nameSet[vc.mapVal(u)] = true
					switch u.Elem().Underlying().(type) {
					case *types.Pointer, *types.Map, *types.Chan:
						refVals[vc.mapVal(u)] = vc.sortOf(u.Key())
					}
				case *types.Slice:
					nameSet[vc.arrHeap(u.Elem())] = true
				}
			}
		}
	}
	var names []string
	for k := range nameSet {
		names = append(names, k)
	}
	sort.Strings(names)
	for _, k := range names {
		old := vc.get(st, k)
		c := vc.fresh(strings.Trim(k, "|")+"_own", vc.reg().sorts[k])
		vc.assert(fmt.Sprintf("(forall ((r Int)) (! (=> (not (select %s r)) (= (select %s r) (select %s r))) :pattern ((select %s r))))", owned, c, old, c))
		if ks, ok := refVals[k]; ok {
			// references found in a monitor-owned map designate objects that exist now (heap closure)
			vc.assert(fmt.Sprintf("(forall ((r Int) (k %s)) (! (< (select (select %s r) k) %s) :pattern ((select (select %s r) k))))", ks, c, vc.getNext(st), c))
		}
		st.comp[k] = c
	}
	no := vc.fresh("Owned", "(Array Int Bool)")
	vc.assert(fmt.Sprintf("(forall ((r Int)) (! (=> (select %s r) (select %s r)) :pattern ((select %s r)) :pattern ((select %s r))))", owned, no, owned, no))
	// newly owned objects are ones the caller has never seen
	vc.assert(fmt.Sprintf("(forall ((r Int)) (! (=> (and (select %s r) (not (select %s r))) (>= r %s)) :pattern ((select %s r))))", no, owned, vc.getNext(st), no))
	st.comp["Owned"] = no
}

// callerAcquire: the callee acquires the monitor of these objects; from the caller's point of view the
// protected state is whatever other threads left there (invariant holds) before the callee's body runs.
func (x *Exec) callerAcquire(st *State, tgt *target, recv *val, args []val, site string) {
	for _, le := range tgt.con.Locks {
		env := x.newEnvFor(st, st, tgt.pkg)
		env.bindCallArgs(tgt, recv, args)
		env.callee = tgt
		if tgt.closure != nil {
			x.bindClosure(env, tgt.fn, tgt.closure)
		}
		o := env.eval(le)
		pt, ok := o.typ.Underlying().(*types.Pointer)
		if !ok {
			panic(contractErr("locks: not a pointer"))
		}
		md := x.g.monitorOfType(pt.Elem())
		if md == nil {
			panic(contractErr("locks: no monitor declared for " + pt.Elem().String()))
		}
		x.noReentrantAcquire(st, tgt, md, pt.Elem(), o.t, site)
		// while this thread holds the lock (in either mode) nobody else can have changed the protected fields
		x.havocProtectedUnlessHeld(st, md, pt.Elem(), o.t)
	}
}

// syncPoint: a channel operation synchronises with other threads: facts about monitor-protected state of
// objects whose lock this thread does not hold are stale afterwards.
func (x *Exec) syncPoint(st *State) {
	vc := x.vc
	for _, md := range x.g.cs.Monitors {
		p := x.g.pkgByPath(md.Pkg)
		if p == nil {
			continue
		}
		obj := p.Scope().Lookup(md.Type)
		if obj == nil {
			continue
		}
		sty := obj.Type()
		s, ok := sty.Underlying().(*types.Struct)
		if !ok {
			continue
		}
		li := -1
		for i := 0; i < s.NumFields(); i++ {
			if s.Field(i).Name() == md.Lock {
				li = i
			}
		}
		if li < 0 {
			continue
		}
		vc.regComp("Held", "(Array Int Int)")
		held := vc.get(st, "Held")
		for _, fn := range md.Fields {
			for i := 0; i < s.NumFields(); i++ {
				if s.Field(i).Name() != fn {
					continue
				}
				h := vc.fieldHeap(sty, i)
				if _, touched := st.comp[h]; !touched && !vc.declared[quote(strings.Trim(h, "|")+"@"+st.base)] {
					// never read so far in this function: nothing known, nothing to forget
				}
				old := vc.get(st, h)
				c := vc.fresh(strings.Trim(h, "|")+"_sync", vc.reg().sorts[h])
				lock := vc.subRef(sty, li, "r")
				vc.assert(fmt.Sprintf("(forall ((r Int)) (! (=> (not (= (select %s %s) 0)) (= (select %s r) (select %s r))) :pattern ((select %s r))))", held, lock, c, old, c))
				st.comp[h] = c
			}
		}
	}
}

type contractError string

func (e contractError) Error() string { return string(e) }
func contractErr(s string) error      { return contractError(s) }

// inline executes fn's body in place.
func (x *Exec) inline(st *State, tgt *target, args []val) []string {
	fn := tgt.fn
	child := &Exec{g: x.g, vc: x.vc, fn: fn, vals: map[ssa.Value]string{}, tups: map[ssa.Value][]string{}, addrs: map[ssa.Value]*LValue{},
		iters: map[ssa.Value]*iterInfo{}, constLen: map[ssa.Value]int{}, depth: x.depth + 1, stack: append(append([]*ssa.Function{}, x.stack...), fn),
		prefix: x.prefix + "/in:" + fn.Name(), props: x.props, wrap: x.wrap, callOrd: map[string]int{}, closureOf: map[ssa.Value]*ssa.MakeClosure{},
		con: x.g.inlineContract(fn)}
	child.entry = st.clone()
	child.entry0 = x.entry0
	child.entryNext = x.entryNext
	for i, p := range fn.Params {
		if i < len(args) {
			child.vals[p] = args[i].t
		}
	}
	if tgt.closure != nil {
		for i, fv := range fn.FreeVars {
			child.vals[fv] = x.value(tgt.closure.Bindings[i])
			if lv, ok := x.addrs[tgt.closure.Bindings[i]]; ok {
				child.addrs[fv] = lv
			}
		}
	}
	s0 := st.clone()
	child.run(s0)
	// a helper whose every return hands back a flag-channel field (single result): the caller's value is one too
	x.lastInlineFlag = len(child.rets) > 0 && fn.Signature.Results().Len() == 1
	for _, r := range child.rets {
		if len(r.ssa) != 1 || !child.isFlagChan(r.ssa[0]) {
			x.lastInlineFlag = false
		}
	}
	if len(child.rets) == 0 {
		st.reach = "false"
		var rs []string
		for i := 0; i < fn.Signature.Results().Len(); i++ {
			rs = append(rs, x.vc.zero(fn.Signature.Results().At(i).Type()))
		}
		return rs
	}
	var es []edge
	for _, r := range child.rets {
		es = append(es, edge{r.st, r.st.reach})
	}
	merged := x.vc.merge(es, "ret_"+sanitize(fn.Name()))
	var results []string
	for i := 0; i < fn.Signature.Results().Len(); i++ {
		rt := fn.Signature.Results().At(i).Type()
		if len(child.rets) == 1 {
			results = append(results, child.rets[0].vals[i])
			continue
		}
		c := x.vc.fresh("ret_"+sanitize(fn.Name()), x.vc.sortOf(rt))
		for _, r := range child.rets {
			x.vc.assert(implies(r.st.reach, eq(c, r.vals[i])))
		}
		results = append(results, c)
	}
	*st = *merged
	return results
}

// applyInvoke: the callee calls its function-valued parameter ic.Param any number of times.
func (x *Exec) applyInvoke(st, pre *State, in ssa.Instruction, tgt *target, ic *InvokeClause, recv *val, args []val, cc *ssa.CallCommon, site string) {
	vc := x.vc
	idx := -1
	for i, p := range tgt.params {
		if p == ic.Param {
			idx = i
		}
	}
	if idx < 0 || cc == nil || idx >= len(cc.Args) {
		panic(contractErr("invokes: no parameter " + ic.Param))
	}
	var fn *ssa.Function
	var mc *ssa.MakeClosure
	argv := cc.Args[idx]
	for {
		if ct, ok := argv.(*ssa.ChangeType); ok {
			argv = ct.X
			continue
		}
		break
	}
	switch a := argv.(type) {
	case *ssa.MakeClosure:
		mc = a
		fn = a.Fn.(*ssa.Function)
	case *ssa.Function:
		fn = a
		// a method expression (T.m / (*T).m) is lowered to a synthetic thunk with the receiver as first parameter:
		// the callback is the declared method
		if fn.Pkg == nil && strings.HasSuffix(fn.Name(), "$thunk") {
			if obj, ok := fn.Object().(*types.Func); ok {
				if real := x.g.prog.FuncValue(obj); real != nil && real.Pkg != nil {
					fn = real
				}
			}
		}
	}
	var ccon *Contract
	if fn != nil && fn.Pkg != nil {
		ccon = x.g.cs.Funcs[fn.Pkg.Pkg.Path()+"|"+relName(fn)]
	}
	// callback description (a function/closure with a contract, or a function-valued parameter handed on,
	// described by a `param f in <fn>` contract)
	type cbParam struct {
		name string
		typ  types.Type
	}
	var cbParams []cbParam
	var cbPkg *types.Package
	var cbSig *types.Signature
	cbName := ""
	if ccon != nil {
		cbPkg, cbSig, cbName = fn.Pkg.Pkg, fn.Signature, relName(fn)
		for _, p := range fn.Params {
			cbParams = append(cbParams, cbParam{p.Name(), p.Type()})
		}
	} else if pa, ok := argv.(*ssa.Parameter); ok && x.fn.Pkg != nil {
		if sig, ok := pa.Type().Underlying().(*types.Signature); ok {
			if pc := x.g.cs.Funcs[x.fn.Pkg.Pkg.Path()+"|param "+pa.Name()+" in "+relName(x.fn)]; pc != nil {
				ccon, cbPkg, cbSig, cbName = pc, x.fn.Pkg.Pkg, sig, "param "+pa.Name()
				for i := 0; i < sig.Params().Len(); i++ {
					nm := sig.Params().At(i).Name()
					if i < len(pc.Params) {
						nm = pc.Params[i]
					}
					if nm == "" || nm == "_" {
						nm = fmt.Sprintf("p%d", i)
					}
					cbParams = append(cbParams, cbParam{nm, sig.Params().At(i).Type()})
				}
				vc.note("contract assumed for the callback parameter handed on: param " + pa.Name() + " in " + relName(x.fn))
			}
		}
	}
	if ccon == nil {
		vc.note("callback without contract passed to " + tgt.display + " in " + x.fn.String() + ": all modelled state havocked")
		vc.havocAll(st)
		return
	}
	fref := args[idx].t
	mkEnv := func(cur, old *State) *Env {
		env := x.newEnvFor(cur, old, cbPkg)
		env.lazy = map[string]func(*Env) val{}
		env.capturedCell = map[string]func() (string, string){}
		if mc != nil && fn != nil {
			for i, fv := range fn.FreeVars {
				b := mc.Bindings[i]
				lv := x.lvalueForRead(b)
				if lv == nil {
					continue
				}
				et := fv.Type().Underlying().(*types.Pointer).Elem()
				lvc := lv
				env.lazy[fv.Name()] = func(e *Env) val { return val{vc.load(e.cur, lvc), et, vc.sortOf(et)} }
				if lvc.kind == "cell" {
					env.capturedCell[fv.Name()] = func() (string, string) { return vc.cellHeap(lvc.typ), lvc.base }
				}
			}
		}
		env.names["self"] = val{fref, cbSig, sInt}
		return env
	}
	// bound variables standing for the arguments of one invocation
	var decls []string
	bound := map[string]val{}
	for i, p := range cbParams {
		name := quote(fmt.Sprintf("q$cb%d", i))
		srt := vc.sortOf(p.typ)
		decls = append(decls, "("+name+" "+srt+")")
		v := val{name, p.typ, srt}
		bound[p.name] = v
		if i < len(ic.Vars) {
			bound[ic.Vars[i]] = v
		}
	}
	where := "true"
	if ic.Where != nil {
		wenv := x.newEnvFor(pre, pre, tgt.pkg)
		for _, bv := range ic.With {
			t, srt := wenv.resolveSpecType(bv.Type)
			name := quote("q$w$" + bv.Name)
			decls = append(decls, "("+name+" "+srt+")")
			wenv.names[bv.Name] = val{name, t, srt}
		}
		wenv.bindCallArgs(tgt, recv, args)
		wenv.callee = tgt
		for k, v := range bound {
			wenv.names[k] = v
		}
		where = wenv.evalBool(ic.Where)
	}
	quant := func(body string) string {
		if len(decls) == 0 {
			return body
		}
		return "(forall (" + strings.Join(decls, " ") + ") " + body + ")"
	}
	// 1. the callback's preconditions hold for every invocation the callee may make
	for _, cl := range ccon.Req {
		env := mkEnv(pre, pre)
		for k, v := range bound {
			env.names[k] = v
		}
		t := env.evalBool(cl.Expr)
		o := &Obl{Name: x.prefix + "/pre/" + site + "/callback " + ic.Param + "/" + clauseLabel(cl), Kind: "pre", Props: x.props, Reach: st.reach, Goal: quant(implies(where, t)), Src: "callback " + cbName + " requires " + cl.Text + " whenever " + tgt.display + " invokes it"}
		if in != nil && in.Pos().IsValid() {
			o.Pos = x.g.fset.Position(in.Pos())
		}
		vc.oblige(o)
	}
	// 1b. what it maintains must hold before the first invocation
	for _, cl := range ccon.Maintains {
		t := mkEnv(pre, pre).evalBool(cl.Expr)
		o := &Obl{Name: x.prefix + "/pre/" + site + "/callback " + ic.Param + "/maintains/" + clauseLabel(cl), Kind: "pre", Props: x.props, Reach: st.reach, Goal: t, Src: "callback " + cbName + " maintains " + cl.Text + " (must hold initially)"}
		vc.oblige(o)
	}
	// 2. its effects, any number of times: havoc its frame, keep what it preserves
	var before []val
	for _, cl := range ccon.Preserves {
		before = append(before, mkEnv(pre, pre).eval(cl.Expr))
	}
	envPre := mkEnv(pre, pre)
	// the callback's own parameters stand for arbitrary arguments: an object-specific frame item (t.f with t a
	// parameter of the callback) is widened to the whole field heap
	for _, p := range cbParams {
		if _, dup := envPre.names[p.name]; !dup {
			envPre.names[p.name] = val{vc.fresh("cbarg", vc.sortOf(p.typ)), p.typ, vc.sortOf(p.typ)}
		}
	}
	mentionsParam := func(c *CExpr) bool {
		found := false
		var walk func(c *CExpr)
		walk = func(c *CExpr) {
			if c == nil || found {
				return
			}
			if c.Op == "ident" {
				for _, p := range cbParams {
					if p.name == c.Name {
						if _, captured := envPre.lazy[c.Name]; !captured {
							found = true
						}
					}
				}
			}
			for _, a := range c.Args {
				walk(a)
			}
		}
		walk(c)
		return found
	}
	applyCbMods := func(s *State, e *Env) {
		for _, m := range ccon.Mods {
			if !m.All && m.Heap == "" && m.Captured == "" && m.Expr != nil && mentionsParam(m.Expr) {
				if m.MapHeap {
					x.applyMod(s, e, m)
					continue
				}
				for _, cr := range e.modTargets(m) {
					s.comp[cr.comp] = vc.fresh(strings.Trim(cr.comp, "|")+"_h", vc.reg().sorts[cr.comp])
				}
				continue
			}
			x.applyMod(s, e, m)
		}
	}
	// 2c (checked on a state of its own: the caller's pre-state after any number of earlier invocations - the callback's
	// frame arbitrary, what it maintains / preserves kept; the callee's own effects are not part of it): the callback's
	// preconditions must hold again
	{
		again := pre.clone()
		envA := mkEnv(pre, pre)
		for _, p := range cbParams {
			if _, dup := envA.names[p.name]; !dup {
				envA.names[p.name] = val{vc.fresh("cbarg", vc.sortOf(p.typ)), p.typ, vc.sortOf(p.typ)}
			}
		}
		applyCbMods(again, envA)
		var hyps []string
		for i, cl := range ccon.Preserves {
			hyps = append(hyps, eq(mkEnv(again, pre).eval(cl.Expr).t, before[i].t))
		}
		for _, cl := range ccon.Maintains {
			hyps = append(hyps, mkEnv(again, pre).evalBool(cl.Expr))
		}
		for _, cl := range ccon.Req {
			env := mkEnv(again, pre)
			for k, v := range bound {
				env.names[k] = v
			}
			whereNow := "true"
			if ic.Where != nil {
				wenv := x.newEnvFor(again, pre, tgt.pkg)
				for _, bv := range ic.With {
					t, srt := wenv.resolveSpecType(bv.Type)
					wenv.names[bv.Name] = val{quote("q$w$" + bv.Name), t, srt}
				}
				wenv.bindCallArgs(tgt, recv, args)
				wenv.callee = tgt
				for k, v := range bound {
					wenv.names[k] = v
				}
				whereNow = wenv.evalBool(ic.Where)
			}
			t := env.evalBool(cl.Expr)
			o := &Obl{Name: x.prefix + "/pre/" + site + "/callback " + ic.Param + "/again/" + clauseLabel(cl), Kind: "pre", Props: x.props, Reach: pre.reach, Goal: implies(and(hyps...), quant(implies(whereNow, t))), Src: "callback " + cbName + " requires " + cl.Text + " also after earlier invocations by " + tgt.display}
			if in != nil && in.Pos().IsValid() {
				o.Pos = x.g.fset.Position(in.Pos())
			}
			vc.oblige(o)
		}
	}
	applyCbMods(st, envPre)
	vc.regComp("Calls", "(Array Int Int)")
	oldCalls := vc.get(st, "Calls")
	nc := vc.fresh("ncalls", sInt)
	vc.assert(app(">=", nc, sel(oldCalls, fref)))
	vc.set(st, "Calls", store(oldCalls, fref, nc))
	oldNext := vc.getNext(st)
	nn := vc.fresh("next", sInt)
	vc.assert(app(">=", nn, oldNext))
	st.comp["next"] = nn
	x.rtypeAfterCall(st, ccon, &target{pkg: cbPkg}, oldNext, nn)
	for i, cl := range ccon.Preserves {
		after := mkEnv(st, pre).eval(cl.Expr)
		vc.assert(implies(st.reach, eq(after.t, before[i].t)))
	}
	for _, cl := range ccon.Maintains {
		vc.assert(implies(st.reach, mkEnv(st, pre).evalBool(cl.Expr)))
	}
	// 3. a pure callback is a function of its arguments: its postcondition characterises capply
	if ccon.Pure && fn != nil && fn.Signature.Results().Len() == 1 {
		sorts := []string{sInt}
		as := []string{fref}
		for _, p := range fn.Params {
			sorts = append(sorts, vc.sortOf(p.Type()))
			as = append(as, bound[p.Name()].t)
		}
		rt := fn.Signature.Results().At(0).Type()
		ap := app(capplyName(vc, sorts, vc.sortOf(rt)), as...)
		var reqs []string
		for _, cl := range ccon.Req {
			env := mkEnv(pre, pre)
			for k, v := range bound {
				env.names[k] = v
			}
			reqs = append(reqs, env.evalBool(cl.Expr))
		}
		for _, cl := range ccon.Ens {
			if strings.Contains(cl.Text, "hits(") {
				continue
			}
			env := mkEnv(pre, pre)
			for k, v := range bound {
				env.names[k] = v
			}
			env.bindResults(fn.Signature, []string{ap})
			t := env.evalBool(cl.Expr)
			vc.assert(implies(st.reach, "(forall ("+strings.Join(decls, " ")+") (! "+implies(and(reqs...), t)+" :pattern ("+ap+")))"))
		}
	}
}

// rtypeAfterCall: struct-object tags after a callee ran: unchanged below the old allocation counter, zero beyond the
// new one; in between whatever the callee's `allocates` clause admits (anything if it has none).
func (x *Exec) rtypeAfterCall(st *State, c *Contract, tgt *target, oldNext, newNext string) {
	vc := x.vc
	if _, ok := vc.reg().sorts["RType"]; !ok {
		return
	}
	old := vc.get(st, "RType")
	nr := vc.fresh("RType", "(Array Int Int)")
	vc.assert(fmt.Sprintf("(forall ((x Int)) (! (=> (or (< x %s) (>= x %s)) (= (select %s x) (select %s x))) :pattern ((select %s x))))", oldNext, newNext, nr, old, nr))
	{
		// default: no tracked struct objects are allocated (stubs and interfaces cannot make module-private types;
		// verified functions are checked against their allocates clause)
		alts := []string{eq("(select "+nr+" x)", "(select "+old+" x)")}
		if c == nil {
			c = &Contract{}
		}
		for _, tn := range c.Allocates {
			env := x.newEnvFor(st, st, tgt.pkg)
			t := env.resolveType(tn)
			if !x.g.trackedStruct(t) {
				continue // not tagged while verifying this package: its objects carry tag 0 like every untracked allocation
			}
			alts = append(alts, eq("(select "+nr+" x)", vc.structTID(t)))
		}
		vc.assert(fmt.Sprintf("(forall ((x Int)) (! %s :pattern ((select %s x))))", or(alts...), nr))
	}
	st.comp["RType"] = nr
}

func (x *Exec) markSite(site string) {
	r := x
	if r.seenSites == nil {
		r.seenSites = map[string]bool{}
	}
	r.seenSites[site] = true
}

// siteID: a small integer naming a call site (key of the SiteHits ghost).
func (vc *VC) siteID(site string) string {
	if vc.siteIDs == nil {
		vc.siteIDs = map[string]int{}
	}
	id, ok := vc.siteIDs[site]
	if !ok {
		id = len(vc.siteIDs) + 1
		vc.siteIDs[site] = id
	}
	return fmt.Sprint(id)
}

// conUsesHits: the contract mentions hits("<site>") somewhere.
func conUsesHits(con *Contract) bool {
	if con == nil {
		return false
	}
	has := func(cls []*Clause) bool {
		for _, cl := range cls {
			if strings.Contains(cl.Text, "hits(") {
				return true
			}
		}
		return false
	}
	if has(con.Ens) || has(con.Maintains) {
		return true
	}
	for _, cls := range con.Inv {
		if has(cls) {
			return true
		}
	}
	for _, cls := range con.Asserts {
		if has(cls) {
			return true
		}
	}
	return false
}

// noteSiteHit: ghost counter of executions per call site of the function under contract (hits("call f#k")), kept
// only when its contract mentions one.
func (x *Exec) noteSiteHit(st *State, site string) {
	if x.depth > 0 || !conUsesHits(x.con) {
		return
	}
	vc := x.vc
	vc.regComp("SiteHits", "(Array Int Int)")
	cur := vc.get(st, "SiteHits")
	id := vc.siteID(site)
	vc.set(st, "SiteHits", store(cur, id, app("+", sel(cur, id), "1")))
}

// frozenCheck: writing into a backing array that some callee retained (contract clause `freezes`) is an error.
func (x *Exec) frozenCheck(st *State, in ssa.Instruction, cond, arr string) {
	if !x.g.anyFreezes() {
		return
	}
	x.vc.regComp("Frozen", "(Array Int Bool)")
	cur, entry := x.vc.get(st, "Frozen"), x.vc.get(x.entry0, "Frozen")
	if cur == entry {
		return // nothing was retained during this activation
	}
	x.implicit(st, in, "retained-array-written", implies(cond, or(not(sel(cur, arr)), sel(entry, arr))), "write into the backing array of a slice that a callee retained during this activation")
}

// siteOrdinal: the k-th call site of this callee in the function, in SOURCE order (stable under CFG reordering).
func (x *Exec) siteOrdinal(in ssa.Instruction, key string) int {
	if x.siteOrd == nil {
		x.siteOrd = map[ssa.Instruction]int{}
		type site struct {
			in  ssa.Instruction
			key string
			pos token.Pos
			seq int
		}
		var sites []site
		seq := 0
		for _, b := range x.fn.Blocks {
			for _, i := range b.Instrs {
				var cc *ssa.CallCommon
				prefix := "call "
				switch t := i.(type) {
				case *ssa.Call:
					cc = &t.Call
				case *ssa.Defer:
					cc = &t.Call
				case *ssa.Go:
					cc = &t.Call
					prefix = "go "
				}
				if cc == nil {
					continue
				}
				if bi, isB := cc.Value.(*ssa.Builtin); isB {
					seq++
					sites = append(sites, site{i, "builtin " + bi.Name(), i.Pos(), seq})
					continue
				}
				seq++
				sites = append(sites, site{i, prefix + x.g.resolve(x, cc).display, i.Pos(), seq})
			}
		}
		sort.SliceStable(sites, func(a, b int) bool {
			if sites[a].pos != sites[b].pos {
				return sites[a].pos < sites[b].pos
			}
			return sites[a].seq < sites[b].seq
		})
		cnt := map[string]int{}
		for _, s := range sites {
			x.siteOrd[s.in] = cnt[s.key]
			cnt[s.key]++
		}
	}
	if k, ok := x.siteOrd[in]; ok {
		return k
	}
	k := x.callOrd[key]
	x.callOrd[key] = k + 1
	return 1000 + k
}

// bindClosure makes the captured variables of closure mc visible (by name, state-dependent) in env.
func (x *Exec) bindClosure(env *Env, fn *ssa.Function, mc *ssa.MakeClosure) {
	vc := x.vc
	if env.lazy == nil {
		env.lazy = map[string]func(*Env) val{}
	}
	if env.capturedCell == nil {
		env.capturedCell = map[string]func() (string, string){}
	}
	if mc == nil {
		return
	}
	for i, fv := range fn.FreeVars {
		b := mc.Bindings[i]
		lv := x.lvalueForRead(b)
		if lv == nil {
			// captured by value (a variable that is never reassigned): the binding is the value itself
			bv, bt := x.value(b), b.Type()
			env.lazy[fv.Name()] = func(e *Env) val { return val{bv, bt, vc.sortOf(bt)} }
			continue
		}
		et := fv.Type().Underlying().(*types.Pointer).Elem()
		lvc := lv
		if lvc.kind == "structref" {
			// captured struct variable: denotes its address
			ref := lvc.base
			pt := fv.Type()
			env.lazy[fv.Name()] = func(e *Env) val { return val{ref, pt, sInt} }
			continue
		}
		env.lazy[fv.Name()] = func(e *Env) val { return val{vc.load(e.cur, lvc), et, vc.sortOf(et)} }
		if lvc.kind == "cell" {
			env.capturedCell[fv.Name()] = func() (string, string) { return vc.cellHeap(lvc.typ), lvc.base }
		}
	}
}

// spawnCheck: `go f(...)`: the spawned function's preconditions are obligations here.
func (x *Exec) spawnCheck(st *State, g *ssa.Go) {
	cc := &g.Call
	if _, ok := cc.Value.(*ssa.Builtin); ok {
		return
	}
	tgt := x.g.resolve(x, cc)
	ord := x.siteOrdinal(g, "go "+tgt.display)
	site := fmt.Sprintf("go %s#%d", tgt.display, ord)
	x.markSite(site)
	var args []val
	var recv *val
	if cc.IsInvoke() {
		recv = &val{x.value(cc.Value), cc.Value.Type(), sAny}
	}
	for _, a := range cc.Args {
		args = append(args, val{x.value(a), a.Type(), x.vc.sortOf(a.Type())})
	}
	x.noteSiteHit(st, site)
	if x.con != nil {
		for _, cl := range x.con.Asserts[site] {
			env := x.newEnv(st, x.oldOf(st))
			env.atBlock = g.Block()
			env.bindCallArgs(tgt, recv, args)
			t := env.evalBool(cl.Expr)
			x.obligeClause("assert", site+"/"+clauseLabel(cl), st.reach, t, cl)
		}
		for _, ef := range x.con.SiteSets[site] {
			env := x.newEnv(st, x.oldOf(st))
			env.atBlock = g.Block()
			env.bindCallArgs(tgt, recv, args)
			v := env.eval(ef.Expr)
			comp := env.compByName("ghost:" + ef.Name)
			if comp == "" {
				panic(contractErr("set: unknown ghost " + ef.Name))
			}
			x.vc.set(st, comp, v.t)
		}
	}
	if tgt.con != nil {
		for _, cl := range tgt.con.Req {
			env := x.newEnvFor(st, st, tgt.pkg)
			env.bindCallArgs(tgt, recv, args)
			env.callee = tgt
			if tgt.closure != nil {
				x.bindClosure(env, tgt.fn, tgt.closure)
			}
			t := env.evalBool(cl.Expr)
			parts := splitAnd(t)
			for pi, gl := range parts {
				nm := clauseLabel(cl)
				if len(parts) > 1 {
					nm = fmt.Sprintf("%s.%d", nm, pi)
				}
				o := &Obl{Name: x.prefix + "/pre/" + site + "/" + nm, Kind: "pre", Props: x.props, Reach: st.reach, Goal: gl, Src: "requires " + cl.Text}
				o.Pos = x.g.fset.Position(g.Pos())
				x.vc.oblige(o)
			}
		}
	}
}

// ---------------------------------------------------------------- builtins

func (x *Exec) builtin(st *State, in ssa.Instruction, b *ssa.Builtin, cc *ssa.CallCommon, res ssa.Value) {
	vc := x.vc
	switch b.Name() {
	case "len":
		a := cc.Args[0]
		v := x.value(a)
		switch u := a.Type().Underlying().(type) {
		case *types.Slice:
			x.vals[res] = app("s_len", v)
		case *types.Map:
			x.ownerCheckMap(st, in, a, false)
			x.bind(res, ite(eq(v, "0"), "0", vc.card(vc.sortOf(u.Key()), sel(vc.get(st, vc.mapDom(u)), v))))
		case *types.Basic:
			x.vals[res] = app("str_len", v)
		case *types.Array:
			x.vals[res] = fmt.Sprint(u.Len())
		case *types.Pointer:
			x.vals[res] = fmt.Sprint(u.Elem().Underlying().(*types.Array).Len())
		case *types.Chan:
			c := vc.fresh("chanlen", sInt)
			vc.assert(app(">=", c, "0"))
			x.vals[res] = c
		}
	case "cap":
		a := cc.Args[0]
		v := x.value(a)
		switch a.Type().Underlying().(type) {
		case *types.Slice:
			x.vals[res] = app("s_cap", v)
		default:
			c := vc.fresh("cap", sInt)
			vc.assert(app(">=", c, "0"))
			x.vals[res] = c
		}
	case "append":
		x.appendBuiltin(st, in, cc, res)
	case "copy":
		x.copyBuiltin(st, in, cc, res)
	case "delete":
		mt := cc.Args[0].Type().Underlying().(*types.Map)
		m := x.value(cc.Args[0])
		k := x.value(cc.Args[1])
		x.ownerCheckMap(st, in, cc.Args[0], true)
		d := vc.mapDom(mt)
		cur := vc.get(st, d)
		// delete on a nil map is a no-op
		vc.set(st, d, ite(eq(m, "0"), cur, store(cur, m, store(sel(cur, m), k, "false"))))
	case "close":
		ch := x.value(cc.Args[0])
		vc.regComp("ChanClosed", "(Array Int Bool)")
		x.implicit(st, in, "close", and(not(eq(ch, "0")), not(sel(vc.get(st, "ChanClosed"), ch))), "close of nil or closed channel")
		// closing a channel declared `flagchan T.f signals Pred` publishes Pred(owner): it must hold now
		if pred, owner, pkg := x.g.flagSignal(cc.Args[0]); pred != "" {
			env := x.newEnvFor(st, st, pkg)
			env.names["$obj"] = val{x.value(owner), owner.Type(), sInt}
			t := env.evalBool(&CExpr{Op: "call", Name: pred, Args: []*CExpr{{Op: "ident", Name: "$obj"}}})
			o := &Obl{Name: fmt.Sprintf("%s/signal/%s/%s", x.prefix, pred, x.srcOf(in)), Kind: "signal", Props: x.props, Reach: st.reach, Goal: t, Src: "closing the channel publishes " + pred + ": it must hold at the close"}
			if in != nil && in.Pos().IsValid() {
				o.Pos = x.g.fset.Position(in.Pos())
			}
			vc.oblige(o)
		}
		vc.set(st, "ChanClosed", store(vc.get(st, "ChanClosed"), ch, "true"))
	case "panic":
		x.implicit(st, in, "panic", "false", "explicit panic")
	case "print", "println":
	case "recover":
		if res != nil {
			x.vals[res] = "any_nil"
		}
	case "min", "max":
		a, bb := x.value(cc.Args[0]), x.value(cc.Args[1])
		op := "<="
		if b.Name() == "max" {
			op = ">="
		}
		x.bind(res, ite(app(op, a, bb), a, bb))
	default:
		vc.note("unsupported builtin " + b.Name() + " in " + x.fn.String())
		if res != nil {
			c := vc.fresh("builtin", vc.sortOf(res.Type()))
			x.vals[res] = c
		}
	}
}

func (x *Exec) appendBuiltin(st *State, in ssa.Instruction, cc *ssa.CallCommon, res ssa.Value) {
	vc := x.vc
	s := x.value(cc.Args[0])
	st0 := cc.Args[0].Type().Underlying().(*types.Slice)
	et := st0.Elem()
	es := vc.sortOf(et)
	h := vc.arrHeap(et)
	S := vc.seqSort(es)
	if len(cc.Args) == 1 {
		x.vals[res] = s
		return
	}
	xsV := cc.Args[1]
	xs := x.value(xsV)
	cur := vc.get(st, h)
	var n, XS string
	if isString(xsV.Type()) {
		// append([]byte, string...): content abstracted as a sequence determined by the string
		vc.declFun("bytes_of_str", []string{sStr}, vc.seqSort(sInt))
		XS = app("bytes_of_str", xs)
		n = app("str_len", xs)
		vc.assert(eq(vc.sq("seq_len", es, XS), n))
	} else if k, ok := x.constLen[xsV]; ok && k <= 6 {
		n = fmt.Sprint(k)
		XS = ""
		for i := 0; i < k; i++ {
			u := vc.sq("seq_unit", es, vc.sq("seq_idx", es, sel(cur, app("s_arr", xs)), app("+", app("s_off", xs), fmt.Sprint(i))))
			if i == 0 {
				XS = u
			} else {
				XS = vc.sq("seq_app", es, XS, u)
			}
		}
		if k == 0 {
			XS = quote("seq_empty$" + es)
		}
	} else {
		n = app("s_len", xs)
		XS = vc.view(es, cur, xs)
	}
	XS = vc.name("axs", S, XS)
	ln, cp, off, arr := app("s_len", s), app("s_cap", s), app("s_off", s), app("s_arr", s)
	newLen := vc.name("alen", sInt, app("+", ln, n))
	inplace := vc.fresh("inplace", sBool)
	vc.assert(eq(inplace, app("<=", newLen, cp)))
	fresh := x.alloc(st)
	rarr := vc.name("aarr", sInt, ite(inplace, arr, fresh))
	roff := vc.name("aoff", sInt, ite(inplace, off, "0"))
	ncap := vc.fresh("acap", sInt)
	vc.assert(app(">=", ncap, newLen))
	rcap := ite(inplace, cp, ncap)
	oldS := vc.name("aold", S, sel(cur, arr))
	oldView := vc.name("aview", S, vc.view(es, cur, s))
	newS := vc.fresh("acontent", S)
	L := func(a string) string { return vc.sq("seq_len", es, a) }
	I := func(a, i string) string { return vc.sq("seq_idx", es, a, i) }
	SL := func(a, o, k string) string { return vc.sq("seq_slice", es, a, o, k) }
	// the view of the result is the old view followed by the appended elements
	vc.assert(vc.sq("seq_eq", es, SL(newS, roff, newLen), vc.sq("seq_app", es, oldView, XS)))
	vc.assert(eq(L(newS), ite(inplace, L(oldS), ncap)))
	// in place: everything outside the written window keeps its content
	vc.assert(implies(inplace, fmt.Sprintf("(forall ((k Int)) (! (=> (or (< k (+ %s %s)) (>= k (+ %s %s))) (= %s %s)) :pattern (%s)))", off, ln, off, newLen, I(newS, "k"), I(oldS, "k"), I(newS, "k"))))
	vc.assert(implies(inplace, fmt.Sprintf("(forall ((o Int) (m Int)) (! (=> (and (<= 0 o) (<= 0 m) (or (<= (+ o m) (+ %s %s)) (>= o (+ %s %s)))) %s) :pattern (%s)))", off, ln, off, newLen, vc.sq("seq_eq", es, SL(newS, "o", "m"), SL(oldS, "o", "m")), SL(newS, "o", "m"))))
	x.frozenCheck(st, in, and(inplace, not(eq(n, "0"))), arr)
	vc.set(st, h, store(cur, rarr, newS))
	r := app("mk_slice", rarr, roff, newLen, rcap)
	// append(nil, nothing...) yields nil; appending nothing in general keeps the slice
	r = ite(eq(n, "0"), s, r)
	vc.set(st, h, ite(eq(n, "0"), cur, vc.get(st, h)))
	x.bind(res, r)
}

func (x *Exec) copyBuiltin(st *State, in ssa.Instruction, cc *ssa.CallCommon, res ssa.Value) {
	vc := x.vc
	dst := x.value(cc.Args[0])
	srcV := cc.Args[1]
	src := x.value(srcV)
	et := cc.Args[0].Type().Underlying().(*types.Slice).Elem()
	es := vc.sortOf(et)
	h := vc.arrHeap(et)
	S := vc.seqSort(es)
	cur := vc.get(st, h)
	var sl, srcView string
	if isString(srcV.Type()) {
		vc.declFun("bytes_of_str", []string{sStr}, vc.seqSort(sInt))
		srcView = app("bytes_of_str", src)
		sl = app("str_len", src)
	} else {
		sl = app("s_len", src)
		srcView = vc.view(es, cur, src)
	}
	n := vc.name("ncopy", sInt, ite(app("<=", app("s_len", dst), sl), app("s_len", dst), sl))
	oldS := vc.name("cold", S, sel(cur, app("s_arr", dst)))
	newS := vc.fresh("ccontent", S)
	doff := app("s_off", dst)
	L := func(a string) string { return vc.sq("seq_len", es, a) }
	I := func(a, i string) string { return vc.sq("seq_idx", es, a, i) }
	SL := func(a, o, k string) string { return vc.sq("seq_slice", es, a, o, k) }
	vc.assert(eq(L(newS), L(oldS)))
	vc.assert(vc.sq("seq_eq", es, SL(newS, doff, n), SL(srcView, "0", n)))
	vc.assert(fmt.Sprintf("(forall ((k Int)) (! (=> (or (< k %s) (>= k (+ %s %s))) (= %s %s)) :pattern (%s)))", doff, doff, n, I(newS, "k"), I(oldS, "k"), I(newS, "k")))
	vc.assert(fmt.Sprintf("(forall ((o Int) (m Int)) (! (=> (and (<= 0 o) (<= 0 m) (or (<= (+ o m) %s) (>= o (+ %s %s)))) %s) :pattern (%s)))", doff, doff, n, vc.sq("seq_eq", es, SL(newS, "o", "m"), SL(oldS, "o", "m")), SL(newS, "o", "m")))
	vc.set(st, h, ite(eq(n, "0"), cur, store(cur, app("s_arr", dst), newS)))
	if res != nil {
		x.vals[res] = n
	}
}

// noReentrantAcquire: the callee acquires the monitor lock of `base` (its contract says `locks`). sync locks are not
// reentrant - a second acquisition by the thread that holds the lock never returns (Mutex, RWMutex.Lock), or returns
// only as long as no writer is waiting (RWMutex.RLock after RLock) - so the calling activation must not hold that lock.
// The obligation is relative to the activation's own view: it was entered holding exactly the locks its contract
// requires (held / wheld / rheld in `requires`); whether a caller further up holds the lock is that caller's obligation.
func (x *Exec) noReentrantAcquire(st *State, tgt *target, md *MonitorDef, sty types.Type, base string, site string) {
	if x.depth != 0 || x.con == nil || x.entry0 == nil {
		return
	}
	s, ok := sty.Underlying().(*types.Struct)
	if !ok {
		return
	}
	li := -1
	for i := 0; i < s.NumFields(); i++ {
		if s.Field(i).Name() == md.Lock {
			li = i
		}
	}
	if li < 0 {
		return
	}
	vc := x.vc
	vc.regComp("Held", "(Array Int Int)")
	lockRef := vc.subRef(sty, li, base)
	// locks the contract says are held on entry
	var reqHeld []string
	var collect func(c *CExpr, env *Env)
	collect = func(c *CExpr, env *Env) {
		if c == nil {
			return
		}
		if c.Op == "call" && (c.Name == "held" || c.Name == "wheld" || c.Name == "rheld") && len(c.Args) == 1 {
			func() {
				defer func() { recover() }()
				reqHeld = append(reqHeld, env.eval(c.Args[0]).t)
			}()
			return
		}
		if c.Op == "forall" || c.Op == "exists" {
			return
		}
		for _, a := range c.Args {
			collect(a, env)
		}
	}
	envE := x.newEnv(x.entry0, x.entry0)
	for _, cl := range x.con.Req {
		collect(cl.Expr, envE)
	}
	// Only definite re-acquisitions are asked about: the object is the very one this activation locked itself, or one
	// whose lock its contract says it is entered with. (Whether two different expressions - a node and its child, say -
	// may denote the same object is a shape question the lock discipline does not answer.)
	known := x.acquiredObjs[base]
	for _, a := range reqHeld {
		if a == lockRef {
			known = true
		}
	}
	if !known {
		return
	}
	hyp := []string{}
	for _, a := range reqHeld {
		hyp = append(hyp, not(eq(lockRef, a)))
	}
	cleanEntry := implies(and(hyp...), eq(sel(vc.get(x.entry0, "Held"), lockRef), "0"))
	goal := or(eq(base, "0"), implies(cleanEntry, eq(sel(vc.get(st, "Held"), lockRef), "0")))
	vc.oblige(&Obl{Name: x.prefix + "/pre/" + site + "/lock-not-held-by-this-activation/" + md.Type + "." + md.Lock, Kind: "pre", Props: x.props, Reach: st.reach, Goal: goal,
		Src: tgt.display + " acquires " + md.Type + "." + md.Lock + " of its argument: the calling activation must not hold that lock (sync locks are not reentrant)"})
}
