package main

// smt.go: SMT-LIB term helpers, the VC stream (declarations, assertions,
// obligations in program order), and the mapping from Go types to SMT sorts.

import (
	"fmt"
	"go/token"
	"go/types"
	"math"
	"sort"
	"strings"
)

func app(f string, args ...string) string {
	if len(args) == 0 {
		return f
	}
	return "(" + f + " " + strings.Join(args, " ") + ")"
}

func and(xs ...string) string {
	var ys []string
	for _, x := range xs {
		if x == "true" || x == "" {
			continue
		}
		if x == "false" {
			return "false"
		}
		ys = append(ys, x)
	}
	switch len(ys) {
	case 0:
		return "true"
	case 1:
		return ys[0]
	}
	return app("and", ys...)
}

func or(xs ...string) string {
	var ys []string
	for _, x := range xs {
		if x == "false" || x == "" {
			continue
		}
		if x == "true" {
			return "true"
		}
		ys = append(ys, x)
	}
	switch len(ys) {
	case 0:
		return "false"
	case 1:
		return ys[0]
	}
	return app("or", ys...)
}

func not(x string) string {
	switch x {
	case "true":
		return "false"
	case "false":
		return "true"
	}
	if strings.HasPrefix(x, "(not ") && strings.HasSuffix(x, ")") && balanced(x[5:len(x)-1]) {
		return x[5 : len(x)-1]
	}
	return "(not " + x + ")"
}

func balanced(s string) bool {
	d := 0
	inq := false
	for _, c := range s {
		if c == '|' {
			inq = !inq
		}
		if inq {
			continue
		}
		if c == '(' {
			d++
		} else if c == ')' {
			d--
			if d < 0 {
				return false
			}
		} else if c == ' ' && d == 0 {
			return false
		}
	}
	return d == 0
}

func implies(a, b string) string {
	if a == "true" {
		return b
	}
	if a == "false" || b == "true" {
		return "true"
	}
	return "(=> " + a + " " + b + ")"
}
func ite(c, a, b string) string {
	if c == "true" {
		return a
	}
	if c == "false" {
		return b
	}
	if a == b {
		return a
	}
	return "(ite " + c + " " + a + " " + b + ")"
}
func eq(a, b string) string {
	if a == b {
		return "true"
	}
	return "(= " + a + " " + b + ")"
}
func sel(a, i string) string      { return "(select " + a + " " + i + ")" }
func store(a, i, v string) string { return "(store " + a + " " + i + " " + v + ")" }
func intLit(n int64) string {
	if n < 0 {
		if n == math.MinInt64 {
			return "(- 9223372036854775808)"
		}
		return fmt.Sprintf("(- %d)", -n)
	}
	return fmt.Sprintf("%d", n)
}
func uintLit(n uint64) string { return fmt.Sprintf("%d", n) }

func quote(s string) string {
	ok := true
	for _, c := range s {
		if !(c >= 'a' && c <= 'z' || c >= 'A' && c <= 'Z' || c >= '0' && c <= '9' || c == '_' || c == '$' || c == '.' || c == '@' || c == '!') {
			ok = false
			break
		}
	}
	if ok && s != "" && !(s[0] >= '0' && s[0] <= '9') {
		return s
	}
	s = strings.ReplaceAll(s, "|", "!")
	s = strings.ReplaceAll(s, "\\", "!")
	return "|" + s + "|"
}

// Obl is one proof obligation: under the stream prefix lines[:NLines], reach /\ not goal must be unsat.
type Obl struct {
	Name   string
	Kind   string // pre, post, inv-entry, inv-preserve, nil, index, slice, typeassert, mapwrite, div, panic, close, frame, assert, cover
	Props  []string
	Func   string
	Reach  string
	Goal   string
	NLines int
	Src    string
	Pos    token.Position
	Cover  bool // vacuity guard: expects SAT (reach satisfiable)
	// site covers: the state after assuming a callee's contract must be satisfiable whenever the state before the call was
	PreReach  string
	PreNLines int

	// results
	Result  string // unsat, sat, unknown, timeout, error
	Backend string
	Secs    float64
	Output  string
}

// VC is the ordered stream for one verified function.
type VC struct {
	Func    string
	lines   []string
	obls    []*Obl
	nfresh  int
	declared map[string]bool
	strlits  map[string]string
	strOrder []string
	typeIDs  map[string]int
	typeOrder []string
	notes   map[string]bool // abstractions / assumptions recorded while generating
	oblNames map[string]int
	creg *compReg
	localsFrom string // allocation counter at function entry: cells at or above it belong to this activation
	glines []string
	gdecl map[string]bool
	gmode int
	sentinelOrder []string
	siteIDs   map[string]int  // call sites named by hits("...") / counted in SiteHits
	hitsUsed  map[string]bool // sites whose hit count a contract clause mentioned
}

func newVC(fn string) *VC {
	vc := &VC{Func: fn, declared: map[string]bool{}, strlits: map[string]string{}, typeIDs: map[string]int{}, notes: map[string]bool{}, oblNames: map[string]int{}, gdecl: map[string]bool{}}
	return vc
}

func (vc *VC) note(s string) { vc.notes[s] = true }

func (vc *VC) raw(line string) {
	if vc.gmode > 0 {
		vc.glines = append(vc.glines, line)
		return
	}
	vc.lines = append(vc.lines, line)
}

// global: run f emitting into the global preamble (sorts, uninterpreted functions and their axioms, literals).
// Global lines are never rolled back and precede every query.
func (vc *VC) global(f func()) {
	vc.gmode++
	defer func() { vc.gmode-- }()
	f()
}

func (vc *VC) isDeclared(name string) bool { return vc.declared[name] || vc.gdecl[name] }
func (vc *VC) markDeclared(name string) {
	if vc.gmode > 0 {
		vc.gdecl[name] = true
	} else {
		vc.declared[name] = true
	}
}

func (vc *VC) declConst(name, sort string) {
	if vc.isDeclared(name) {
		return
	}
	vc.markDeclared(name)
	vc.raw("(declare-const " + name + " " + sort + ")")
}

func (vc *VC) declFun(name string, args []string, ret string) {
	vc.gmode++
	defer func() { vc.gmode-- }()
	if vc.isDeclared(name) {
		return
	}
	vc.markDeclared(name)
	vc.raw("(declare-fun " + name + " (" + strings.Join(args, " ") + ") " + ret + ")")
}

func (vc *VC) fresh(prefix, sort string) string {
	vc.nfresh++
	name := quote(fmt.Sprintf("%s!%d", prefix, vc.nfresh))
	vc.markDeclared(name)
	vc.raw("(declare-const " + name + " " + sort + ")")
	return name
}

func (vc *VC) assert(t string) {
	if t == "true" {
		return
	}
	vc.raw("(assert " + t + ")")
}

// name binds a term to a fresh constant (keeps terms small).
func (vc *VC) name(prefix, sort, term string) string {
	if len(term) < 40 {
		return term
	}
	c := vc.fresh(prefix, sort)
	vc.assert(eq(c, term))
	return c
}

func (vc *VC) oblige(o *Obl) {
	o.Func = vc.Func
	o.Name = strings.ReplaceAll(o.Name, " ", "_")
	base := o.Name
	k := vc.oblNames[base]
	vc.oblNames[base] = k + 1
	o.Name = fmt.Sprintf("%s#%d", base, k)
	o.NLines = len(vc.lines)
	vc.obls = append(vc.obls, o)
}

// ---------- strings

func (vc *VC) strLit(s string) string {
	vc.gmode++
	defer func() { vc.gmode-- }()
	if s == "" {
		return "str_empty"
	}
	if c, ok := vc.strlits[s]; ok {
		return c
	}
	c := quote(fmt.Sprintf("str!%d!%s", len(vc.strlits), sanitize(s)))
	vc.declConst(c, "Str")
	for _, o := range vc.strOrder {
		vc.assert(not(eq(c, vc.strlits[o])))
	}
	vc.assert(not(eq(c, "str_empty")))
	vc.assert(eq(app("str_len", c), fmt.Sprint(len(s))))
	vc.strlits[s] = c
	vc.strOrder = append(vc.strOrder, s)
	return c
}

func sanitize(s string) string {
	var b strings.Builder
	for _, c := range s {
		if c >= 'a' && c <= 'z' || c >= 'A' && c <= 'Z' || c >= '0' && c <= '9' || c == '_' {
			b.WriteRune(c)
		} else {
			b.WriteByte('_')
		}
		if b.Len() > 24 {
			break
		}
	}
	return b.String()
}

// ---------- type ids

func (vc *VC) typeID(t types.Type) string {
	vc.gmode++
	defer func() { vc.gmode-- }()
	k := typeKey(t)
	if id, ok := vc.typeIDs[k]; ok {
		return fmt.Sprint(id)
	}
	id := len(vc.typeIDs) + 1
	vc.typeIDs[k] = id
	vc.typeOrder = append(vc.typeOrder, k)
	vc.raw(fmt.Sprintf("; typeid %d = %s", id, k))
	switch t.Underlying().(type) {
	case *types.Pointer, *types.Map, *types.Chan:
		if !vc.gdecl["is_ref_type"] {
			vc.gdecl["is_ref_type"] = true
			vc.raw("(declare-fun is_ref_type (Int) Bool)")
		}
		vc.raw(fmt.Sprintf("(assert (is_ref_type %d))", id))
	}
	return fmt.Sprint(id)
}

func typeKey(t types.Type) string {
	return types.TypeString(t, func(p *types.Package) string { return p.Path() })
}

func shortTypeKey(t types.Type) string {
	return types.TypeString(t, func(p *types.Package) string { return p.Name() })
}

// ---------- sorts

const (
	sInt   = "Int"
	sBool  = "Bool"
	sStr   = "Str"
	sSlice = "Slice"
	sAny   = "Any"
	sF64   = "(_ FloatingPoint 11 53)"
	sF32   = "(_ FloatingPoint 8 24)"
)

const prelude = `(set-option :print-success false)
(set-logic ALL)
(declare-sort Str 0)
(declare-datatypes ((Slice 0)) (((mk_slice (s_arr Int) (s_off Int) (s_len Int) (s_cap Int)))))
(declare-datatypes ((Any 0)) (((mk_any (a_typ Int) (a_val Int)))))
(declare-const str_empty Str)
(declare-fun str_len (Str) Int)
(assert (forall ((s Str)) (! (>= (str_len s) 0) :pattern ((str_len s)))))
(assert (forall ((s Str)) (! (= (= (str_len s) 0) (= s str_empty)) :pattern ((str_len s)))))
(declare-fun str_lt (Str Str) Bool)
(assert (forall ((a Str) (b Str)) (! (not (and (str_lt a b) (str_lt b a))) :pattern ((str_lt a b)))))
(assert (forall ((a Str) (b Str)) (! (or (str_lt a b) (str_lt b a) (= a b)) :pattern ((str_lt a b)))))
(assert (forall ((a Str) (b Str) (c Str)) (! (=> (and (str_lt a b) (str_lt b c)) (str_lt a c)) :pattern ((str_lt a b) (str_lt b c)))))
(assert (forall ((a Str)) (! (not (str_lt a a)) :pattern ((str_lt a a)))))
(declare-fun str_cat (Str Str) Str)
(assert (forall ((a Str) (b Str)) (! (= (str_len (str_cat a b)) (+ (str_len a) (str_len b))) :pattern ((str_cat a b)))))
(define-fun nil_slice () Slice (mk_slice 0 0 0 0))
(define-fun any_nil () Any (mk_any 0 0))
(define-fun wrap_u ((x Int) (m Int)) Int (mod x m))
(define-fun wrap_s ((x Int) (m Int)) Int (- (mod (+ x (div m 2)) m) (div m 2)))
`

// sortOf maps a Go type to an SMT sort; struct datatypes are declared on demand.
func (vc *VC) sortOf(t types.Type) string {
	switch u := t.Underlying().(type) {
	case *types.Basic:
		switch {
		case u.Info()&types.IsBoolean != 0:
			return sBool
		case u.Info()&types.IsInteger != 0:
			return sInt
		case u.Info()&types.IsString != 0:
			return sStr
		case u.Kind() == types.Float32:
			return sF32
		case u.Info()&types.IsFloat != 0:
			return sF64
		case u.Kind() == types.UnsafePointer, u.Kind() == types.UntypedNil:
			return sInt
		}
		return sInt
	case *types.Pointer, *types.Map, *types.Chan, *types.Signature:
		return sInt
	case *types.Slice:
		return sSlice
	case *types.Interface:
		return sAny
	case *types.Struct:
		return vc.structSort(t)
	case *types.Array:
		return "(Array Int " + vc.sortOf(u.Elem()) + ")"
	case *types.Tuple:
		return sInt // not a first-class value
	case *types.TypeParam:
		return sAny
	}
	return sInt
}

func structName(t types.Type) string {
	if n, ok := t.(*types.Named); ok {
		// canonicalise `type Leaf Tree` onto Tree: use the named type whose underlying struct it shares
		return shortTypeKey(n)
	}
	if a, ok := t.(*types.Alias); ok {
		return structName(types.Unalias(a))
	}
	return shortTypeKey(t)
}

// canonStruct maps a struct-like type to a canonical name so that types sharing
// an identical underlying struct declared via `type A B` share heaps.
var canonByStruct = map[*types.Struct]string{}

func canonStructName(t types.Type) string {
	st, ok := t.Underlying().(*types.Struct)
	if !ok {
		return structName(t)
	}
	if n, ok := canonByStruct[st]; ok {
		return n
	}
	// prefer the origin: for `type Leaf Tree`, both share the same *types.Struct
	n := structName(t)
	canonByStruct[st] = n
	return n
}

func (vc *VC) structSort(t types.Type) string {
	vc.gmode++
	defer func() { vc.gmode-- }()
	st := t.Underlying().(*types.Struct)
	name := canonStructName(t)
	sortName := quote("S$" + name)
	if vc.isDeclared("sort:"+sortName) {
		return sortName
	}
	vc.markDeclared("sort:"+sortName)
	var fields []string
	for i := 0; i < st.NumFields(); i++ {
		fs := vc.sortOf(st.Field(i).Type())
		fields = append(fields, fmt.Sprintf("(%s %s)", quote(fmt.Sprintf("f$%s$%d", name, i)), fs))
	}
	ctor := quote("mk$" + name)
	if len(fields) == 0 {
		vc.raw(fmt.Sprintf("(declare-datatypes ((%s 0)) (((%s))))", sortName, ctor))
	} else {
		vc.raw(fmt.Sprintf("(declare-datatypes ((%s 0)) (((%s %s))))", sortName, ctor, strings.Join(fields, " ")))
	}
	return sortName
}

func (vc *VC) structCtor(t types.Type) string    { vc.structSort(t); return quote("mk$" + canonStructName(t)) }
func (vc *VC) structSel(t types.Type, i int) string {
	vc.structSort(t)
	return quote(fmt.Sprintf("f$%s$%d", canonStructName(t), i))
}

// zero value of a Go type as a term.
func (vc *VC) zero(t types.Type) string {
	switch u := t.Underlying().(type) {
	case *types.Basic:
		switch {
		case u.Info()&types.IsBoolean != 0:
			return "false"
		case u.Info()&types.IsString != 0:
			return "str_empty"
		case u.Kind() == types.Float32:
			return "(_ +zero 8 24)"
		case u.Info()&types.IsFloat != 0:
			return "(_ +zero 11 53)"
		}
		return "0"
	case *types.Slice:
		return "(mk_slice 0 0 0 0)"
	case *types.Interface:
		return "(mk_any 0 0)"
	case *types.Struct:
		var args []string
		for i := 0; i < u.NumFields(); i++ {
			args = append(args, vc.zero(u.Field(i).Type()))
		}
		return app(vc.structCtor(t), args...)
	case *types.Array:
		return vc.constArray(sInt, vc.sortOf(u.Elem()), vc.zero(u.Elem()))
	}
	return "0"
}

// constArray: the array mapping everything to zero. cvc5 accepts (as const ...) only for values,
// so arrays over sorts whose zero is an uninterpreted constant are axiomatised instead.
func (vc *VC) constArray(dom, rng, zero string) string {
	vc.gmode++
	defer func() { vc.gmode-- }()
	if !strings.Contains(zero, "str_empty") && !strings.Contains(zero, "zero$") && !strings.Contains(zero, "carr$") {
		return "((as const (Array " + dom + " " + rng + ")) " + zero + ")"
	}
	name := quote("carr$" + dom + "$" + rng)
	if !vc.isDeclared(name) {
		vc.declConst(name, "(Array "+dom+" "+rng+")")
		vc.assert(fmt.Sprintf("(forall ((i %s)) (! (= (select %s i) %s) :pattern ((select %s i))))", dom, name, zero, name))
	}
	return name
}

// boxing of non-Int sorts into Any payloads
func (vc *VC) box(sort, term string) string {
	vc.gmode++
	defer func() { vc.gmode-- }()
	switch sort {
	case sInt:
		return term
	case sBool:
		return ite(term, "1", "0")
	}
	b := quote("box$" + sort)
	u := quote("unbox$" + sort)
	if !vc.isDeclared(b) {
		vc.declFun(b, []string{sort}, sInt)
		vc.declFun(u, []string{sInt}, sort)
		vc.assert(fmt.Sprintf("(forall ((x %s)) (! (= (%s (%s x)) x) :pattern ((%s x))))", sort, u, b, b))
	}
	return app(b, term)
}

func (vc *VC) unbox(sort, term string) string {
	switch sort {
	case sInt:
		return term
	case sBool:
		return not(eq(term, "0"))
	}
	vc.box(sort, vc.zeroOfSort(sort)) // ensure declared
	return app(quote("unbox$"+sort), term)
}

func (vc *VC) zeroOfSort(sort string) string {
	vc.gmode++
	defer func() { vc.gmode-- }()
	switch sort {
	case sInt:
		return "0"
	case sBool:
		return "false"
	case sStr:
		return "str_empty"
	case sSlice:
		return "(mk_slice 0 0 0 0)"
	case sAny:
		return "(mk_any 0 0)"
	case sF64:
		return "(_ +zero 11 53)"
	case sF32:
		return "(_ +zero 8 24)"
	}
	// struct / array sorts: an arbitrary constant is enough for declaration purposes
	c := quote("zero$" + sort)
	vc.declConst(c, sort)
	return c
}

// sub-object references: address of an embedded struct-valued field.
func (vc *VC) subRef(structType types.Type, field int, base string) string {
	vc.gmode++
	defer func() { vc.gmode-- }()
	name := canonStructName(structType)
	f := quote(fmt.Sprintf("sub$%s$%d", name, field))
	if !vc.isDeclared(f) {
		vc.declFun(f, []string{sInt}, sInt)
		inv := quote(fmt.Sprintf("subinv$%s$%d", name, field))
		vc.declFun(inv, []string{sInt}, sInt)
		vc.declFun("subtag", []string{sInt}, sInt)
		tag := vc.typeID(types.NewPointer(structType)) // unique int per (struct) - refine with field
		vc.assert(fmt.Sprintf("(forall ((x Int)) (! (and (< (%s x) 0) (= (%s (%s x)) x) (= (subtag (%s x)) %d) (= (root (%s x)) (root x))) :pattern ((%s x))))", f, inv, f, f, mustAtoi(tag)*1000+field, f, f))
	}
	return app(f, base)
}

func mustAtoi(s string) int {
	n := 0
	fmt.Sscan(s, &n)
	return n
}

// integer type range
func intRange(t types.Type) (lo, hi string, ok bool) {
	b, isb := t.Underlying().(*types.Basic)
	if !isb || b.Info()&types.IsInteger == 0 {
		return
	}
	switch b.Kind() {
	case types.Int8:
		return "(- 128)", "127", true
	case types.Int16:
		return "(- 32768)", "32767", true
	case types.Int32:
		return "(- 2147483648)", "2147483647", true
	case types.Int, types.Int64, types.UntypedInt:
		return "(- 9223372036854775808)", "9223372036854775807", true
	case types.Uint8:
		return "0", "255", true
	case types.Uint16:
		return "0", "65535", true
	case types.Uint32:
		return "0", "4294967295", true
	case types.Uint, types.Uint64, types.Uintptr:
		return "0", "18446744073709551615", true
	}
	return
}

func intBits(t types.Type) (bits int, signed bool, ok bool) {
	b, isb := t.Underlying().(*types.Basic)
	if !isb || b.Info()&types.IsInteger == 0 {
		return
	}
	switch b.Kind() {
	case types.Int8:
		return 8, true, true
	case types.Int16:
		return 16, true, true
	case types.Int32:
		return 32, true, true
	case types.Int, types.Int64, types.UntypedInt:
		return 64, true, true
	case types.Uint8:
		return 8, false, true
	case types.Uint16:
		return 16, false, true
	case types.Uint32:
		return 32, false, true
	case types.Uint, types.Uint64, types.Uintptr:
		return 64, false, true
	}
	return
}

func pow2(bits int) string {
	switch bits {
	case 8:
		return "256"
	case 16:
		return "65536"
	case 32:
		return "4294967296"
	}
	return "18446744073709551616"
}

func sortedKeys(m map[string]bool) []string {
	var ks []string
	for k := range m {
		ks = append(ks, k)
	}
	sort.Strings(ks)
	return ks
}

func ptrTo(t types.Type) types.Type { return types.NewPointer(t) }


// ---------- axiomatised sequences (contents of backing arrays and slice views)

func seqSortName(es string) string { return quote("Seq$" + es) }

func (vc *VC) seqSort(es string) string {
	vc.gmode++
	defer func() { vc.gmode-- }()
	name := seqSortName(es)
	if vc.isDeclared("sort:"+name) {
		return name
	}
	vc.markDeclared("sort:"+name)
	f := func(n string) string { return quote(n + "$" + es) }
	S := name
	vc.raw("(declare-sort " + S + " 0)")
	vc.raw(fmt.Sprintf("(declare-fun %s (%s) Int)", f("seq_len"), S))
	vc.raw(fmt.Sprintf("(declare-fun %s (%s Int) %s)", f("seq_idx"), S, es))
	vc.raw(fmt.Sprintf("(declare-const %s %s)", f("seq_empty"), S))
	vc.raw(fmt.Sprintf("(declare-fun %s (%s) %s)", f("seq_unit"), es, S))
	vc.raw(fmt.Sprintf("(declare-fun %s (%s %s) %s)", f("seq_app"), S, S, S))
	vc.raw(fmt.Sprintf("(declare-fun %s (%s Int Int) %s)", f("seq_slice"), S, S))
	vc.raw(fmt.Sprintf("(declare-fun %s (%s Int %s) %s)", f("seq_upd"), S, es, S))
	vc.raw(fmt.Sprintf("(declare-fun %s (Int %s) %s)", f("seq_fill"), es, S))
	vc.raw(fmt.Sprintf("(declare-fun %s (%s %s) Bool)", f("seq_eq"), S, S))
	ax := func(format string, a ...interface{}) { vc.raw("(assert " + fmt.Sprintf(format, a...) + ")") }
	L, I, E, U, A, SL, UP, FI, EQ := f("seq_len"), f("seq_idx"), f("seq_empty"), f("seq_unit"), f("seq_app"), f("seq_slice"), f("seq_upd"), f("seq_fill"), f("seq_eq")
	// Model: a sequence is a length together with a TOTAL index function; seq_eq compares the in-range part only.
	// Every axiom below holds in that model (so the set is consistent); equality of sequences as such is only
	// available where it is exact in the model, everything else is stated with seq_eq.
	ax("(forall ((s %s)) (! (>= (%s s) 0) :pattern ((%s s))))", S, L, L)
	ax("(= (%s %s) 0)", L, E)
	ax("(forall ((v %s)) (! (and (= (%s (%s v)) 1) (= (%s (%s v) 0) v)) :pattern ((%s v))))", es, L, U, I, U, U)
	ax("(forall ((a %s) (b %s)) (! (= (%s (%s a b)) (+ (%s a) (%s b))) :pattern ((%s a b))))", S, S, L, A, L, L, A)
	ax("(forall ((a %s) (b %s) (i Int)) (! (= (%s (%s a b) i) (ite (< i (%s a)) (%s a i) (%s b (- i (%s a))))) :pattern ((%s (%s a b) i))))", S, S, I, A, L, I, I, L, I, A)
	ax("(forall ((s %s) (o Int) (n Int)) (! (=> (<= 0 n) (= (%s (%s s o n)) n)) :pattern ((%s s o n))))", S, L, SL, SL)
	ax("(forall ((s %s) (o Int) (n Int) (i Int)) (! (= (%s (%s s o n) i) (%s s (+ o i))) :pattern ((%s (%s s o n) i))))", S, I, SL, I, I, SL)
	ax("(forall ((s %s) (i Int) (v %s)) (! (= (%s (%s s i v)) (%s s)) :pattern ((%s s i v))))", S, es, L, UP, L, UP)
	ax("(forall ((s %s) (i Int) (v %s) (j Int)) (! (= (%s (%s s i v) j) (ite (= i j) v (%s s j))) :pattern ((%s (%s s i v) j))))", S, es, I, UP, I, I, UP)
	ax("(forall ((n Int) (v %s)) (! (=> (>= n 0) (= (%s (%s n v)) n)) :pattern ((%s n v))))", es, L, FI, FI)
	ax("(forall ((n Int) (v %s) (i Int)) (! (= (%s (%s n v) i) v) :pattern ((%s (%s n v) i))))", es, I, FI, I, FI)
	// in-range equivalence
	ax("(forall ((a %s) (b %s)) (! (= (%s a b) (and (= (%s a) (%s b)) (forall ((i Int)) (! (=> (and (<= 0 i) (< i (%s a))) (= (%s a i) (%s b i))) :pattern ((%s a i)) :pattern ((%s b i)))))) :pattern ((%s a b))))", S, S, EQ, L, L, L, I, I, I, I, EQ)
	// exact identities of the model
	ax("(forall ((a %s) (b %s) (c %s)) (! (= (%s (%s a b) c) (%s a (%s b c))) :pattern ((%s (%s a b) c))))", S, S, S, A, A, A, A, A, A)
	ax("(forall ((s %s)) (! (= (%s s 0 (%s s)) s) :pattern ((%s s 0 (%s s)))))", S, SL, L, SL, L)
	ax("(forall ((s %s) (o Int) (n Int) (o2 Int) (n2 Int)) (! (= (%s (%s s o n) o2 n2) (%s s (+ o o2) n2)) :pattern ((%s (%s s o n) o2 n2))))", S, SL, SL, SL, SL, SL)
	ax("(forall ((s %s) (k Int) (v %s) (o Int) (n Int)) (! (= (%s (%s s k v) o n) (%s (%s s o n) (- k o) v)) :pattern ((%s (%s s k v) o n))))", S, es, SL, UP, UP, SL, SL, UP)
	return name
}

func (vc *VC) sq(fn, es string, args ...string) string {
	vc.seqSort(es)
	return app(quote(fn+"$"+es), args...)
}

// view of a slice value over the given backing-array heap term
func (vc *VC) view(es, arrHeapTerm, s string) string {
	return vc.sq("seq_slice", es, sel(arrHeapTerm, app("s_arr", s)), app("s_off", s), app("s_len", s))
}

// structTID: the runtime type tag of whole allocated objects of struct type t (canonical: `type Leaf Tree` share it).
func (vc *VC) structTID(t types.Type) string {
	name := canonStructName(t)
	k := "struct:" + name
	if id, ok := vc.typeIDs[k]; ok {
		return fmt.Sprint(id)
	}
	vc.gmode++
	defer func() { vc.gmode-- }()
	id := len(vc.typeIDs) + 1
	vc.typeIDs[k] = id
	vc.typeOrder = append(vc.typeOrder, k)
	vc.raw(fmt.Sprintf("; typeid %d = %s", id, k))
	return fmt.Sprint(id)
}
