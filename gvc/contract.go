package main

// contract.go: parser for the structured-comment contract files
// (/repo/<pkg>/verif_contracts.go, tag verif) and the stub files
// (/verif/contracts/stubs/*.gvc), plus the contract expression parser.

import (
	"fmt"
	"os"
	"strconv"
	"strings"
	"unicode"
)

type Clause struct {
	Trusted bool // assumed by callers, not checked against the body (listed as an assumption)
	Props []string // restricts the clause to these properties (default: the function's)
	Text  string
	Expr  *CExpr
	Label string
	File  string
	Line  int
}

type ModItem struct {
	All   bool   // modifies *
	Heap  string // heap(T.f) : whole component by struct.field name, or ghost/global name
	Expr  *CExpr // lvalue x.f
	Captured string // captured variable of a closure (its cell)
	Elems bool   // elems(x): backing array of slice x
	MapOf bool   // mapof(m): contents of map m
	MapHeap bool // mapheap(m): contents of every map of m's type
	Text  string
}

type Contract struct {
	Pkg     string // package path (or "" for stubs keyed by full name)
	Name    string // function name as printed by ssa relative to package, or "iface T.M", "field T.f", "global v", "param f.p"
	Params  []string
	Props   []string
	Req     []*Clause
	Ens     []*Clause
	Mods    []*ModItem
	Inv     map[int][]*Clause
	Variants map[int][]*Clause // loop variants ("decreases <loop>: expr"): non-negative at the head, strictly smaller on every back edge
	Asserts map[string][]*Clause // keyed "call <callee>#k" -> clauses asserted before that call
	FlagResult bool // the (single) result is a flag channel: never sent on, a receive completes only when it is closed
	SiteSets map[string][]*GhostEffect // ghost assignments performed just before a call site ("set at call f#k: g := expr")
	After   map[string][]*Clause // ghost updates / assumptions are not allowed; only asserts (checked) after call
	Allocates []string
	HasAllocates bool
	Freezes []*CExpr
	Invokes []*InvokeClause
	Maintains []*Clause
	Preserves []*Clause
	Effects []*GhostEffect // declared ghost effects: each call performs g := expr (expr over the pre-state and results)
	TouchesOwned bool // runs inside a monitor held by its caller: may change monitor-owned objects
	Locks   []*CExpr // objects whose monitor this function acquires: contract is relative to the acquisition state
	Trusted bool
	Wrap    bool
	Inline  bool
	NoBody  bool // stub
	Pure    bool // no modifies and result is a function of args + state (usable in specs)
	Blocking bool
	File    string
	Line    int
	Notes   []string
	Lemma   bool
}

// InvokeClause: `invokes f(v1, v2) where <expr>`: the callee may call its function-valued parameter f any number of
// times, each time with arguments satisfying the where-expression (bound variables v1.. range over all values).
type InvokeClause struct {
	Param string
	Vars  []string
	With  []boundVar // extra universally quantified variables of the where-expression
	Where *CExpr
	Text  string
}

type GhostEffect struct {
	Name string
	Expr *CExpr
	Text string
}

type PredDef struct {
	Name   string
	Params []boundVar
	Body   *CExpr
	Text   string
	Pkg    string
	File   string
	Line   int
}

type GhostDef struct {
	Name string
	Type string // int, bool, string, set[T], map[K]V
	Pkg  string
}

type OwnerDef struct {
	Field string // T.f
	Lock  string // field name of the lock in the same struct, e.g. mu ; or "immutable"
	Pkg   string
}

type MonitorDef struct {
	Type   string // T
	Lock   string // lock field name
	Fields []string
	Inv    string // predicate name taking *T ("" = none)
	Pkg    string
}

type ContractSet struct {
	Monitors []*MonitorDef
	Funcs   map[string]*Contract // key: pkgpath + "|" + name
	Preds   map[string]*PredDef  // key: pkgpath|name and also bare name (last wins) for stubs
	Ghosts  map[string]*GhostDef // key: name (global namespace)
	Owners  []*OwnerDef
	FlagChans map[string]bool // "pkgpath|T.f"
	FlagSignals map[string]string // "pkgpath|T.f" -> predicate over the owning object that closing the channel publishes
	Files   []string
	Specs   map[string]*SpecDef
	Sorts   map[string]bool
}

func newContractSet() *ContractSet {
	return &ContractSet{Funcs: map[string]*Contract{}, Preds: map[string]*PredDef{}, Ghosts: map[string]*GhostDef{}, FlagChans: map[string]bool{}, FlagSignals: map[string]string{}}
}

// parseContractFile reads //@ lines. pkgPath is the package the file belongs to ("" for stub files,
// where function names are fully qualified as importpath.Name).
func (cs *ContractSet) parseContractFile(file, pkgPath string) error {
	data, err := os.ReadFile(file)
	if err != nil {
		return err
	}
	cs.Files = append(cs.Files, file)
	lines := strings.Split(string(data), "\n")
	type item struct {
		text string
		line int
	}
	var items []item
	for i, l := range lines {
		t := strings.TrimSpace(l)
		if !strings.HasPrefix(t, "//@") {
			continue
		}
		t = strings.TrimPrefix(t, "//@")
		if strings.TrimSpace(t) == "" {
			continue
		}
		// strip trailing comment " // ..." only when preceded by two spaces
		if k := strings.Index(t, "  // "); k >= 0 {
			t = t[:k]
		}
		items = append(items, item{t, i + 1})
	}
	// join continuation lines: a line whose first token is not a keyword continues the previous one
	keywords := map[string]bool{"func": true, "props": true, "requires": true, "ensures": true, "ensures-trusted": true, "modifies": true, "invariant": true, "decreases": true,
		"trusted": true, "arith": true, "inline": true, "pred": true, "ghost": true, "owner": true, "flagchan": true, "assert": true,
		"allocates": true, "freezes": true, "invokes": true, "preserves": true, "maintains": true, "sort": true, "effect": true, "set": true, "flagresult": true, "monitor": true, "locks": true, "inmonitor": true, "pure": true, "blocking": true, "note": true, "lemma": true, "params": true, "spec": true, "axiom": true, "package-props": true}
	var joined []item
	for _, it := range items {
		f := strings.Fields(it.text)
		if len(f) > 0 && keywords[f[0]] {
			joined = append(joined, item{strings.TrimSpace(it.text), it.line})
		} else if len(joined) > 0 {
			joined[len(joined)-1].text += " " + strings.TrimSpace(it.text)
		} else {
			return fmt.Errorf("%s:%d: continuation without clause", file, it.line)
		}
	}
	var cur *Contract
	var lastSpec *SpecDef
	var pkgProps []string
	defer func() {
		if len(pkgProps) == 0 || pkgPath == "" {
			return
		}
		add := func(ps []string) []string {
			for _, q := range pkgProps {
				if !hasProp(ps, q) {
					ps = append(ps, q)
				}
			}
			return ps
		}
		ext := func(cls []*Clause) {
			for _, cl := range cls {
				if len(cl.Props) > 0 {
					cl.Props = add(cl.Props)
				}
			}
		}
		for _, c := range cs.Funcs {
			if c.Pkg != pkgPath || c.File != file {
				continue
			}
			if len(c.Props) > 0 {
				c.Props = add(c.Props)
			}
			ext(c.Req)
			ext(c.Ens)
			ext(c.Maintains)
			ext(c.Preserves)
			for _, cls := range c.Inv {
				ext(cls)
			}
			for _, cls := range c.Variants {
				ext(cls)
			}
			for _, cls := range c.Asserts {
				ext(cls)
			}
			for _, cls := range c.After {
				ext(cls)
			}
		}
	}()
	for _, it := range joined {
		f := strings.Fields(it.text)
		kw := f[0]
		rest := strings.TrimSpace(strings.TrimPrefix(it.text, kw))
		perr := func(e error) error { return fmt.Errorf("%s:%d: %v (in %q)", file, it.line, e, it.text) }
		switch kw {
		case "package-props":
			// package-props C01 C03 ...: every function under contract in this package, with all of its clauses, also
			// serves these properties (they depend on the whole package: a clause that fails here fails them too)
			pkgProps = append(pkgProps, f[1:]...)
			cur = nil
		case "func", "lemma":
			name := rest
			var params []string
			// optional "(a, b)" parameter naming at the very end, after a space
			if k := strings.LastIndex(name, " ("); k >= 0 && strings.HasSuffix(name, ")") {
				ps := name[k+2 : len(name)-1]
				name = strings.TrimSpace(name[:k])
				for _, p := range strings.Split(ps, ",") {
					if p = strings.TrimSpace(p); p != "" {
						params = append(params, p)
					}
				}
			}
			cur = &Contract{Pkg: pkgPath, Name: name, Params: params, Inv: map[int][]*Clause{}, Asserts: map[string][]*Clause{}, SiteSets: map[string][]*GhostEffect{}, File: file, Line: it.line}
			if kw == "lemma" {
				cur.Lemma = true
			}
			key := pkgPath + "|" + name
			if pkgPath == "" {
				cur.NoBody = true
				key = "|" + name
			}
			if _, dup := cs.Funcs[key]; dup {
				return perr(fmt.Errorf("duplicate contract for %s", name))
			}
			cs.Funcs[key] = cur
		case "props":
			if cur == nil {
				return perr(fmt.Errorf("props outside func"))
			}
			cur.Props = append(cur.Props, f[1:]...)
		case "requires", "ensures", "assert", "ensures-trusted":
			if cur == nil {
				return perr(fmt.Errorf("%s outside func", kw))
			}
			label := ""
			text := rest
			site := ""
			if kw == "assert" {
				// assert at call <callee>#k: [label] expr
				if !strings.HasPrefix(text, "at ") {
					return perr(fmt.Errorf("assert needs 'at <site>:'"))
				}
				k := strings.Index(text, ": ")
				if k < 0 {
					return perr(fmt.Errorf("assert needs 'at <site>: expr'"))
				}
				site = strings.TrimSpace(text[3:k])
				text = strings.TrimSpace(text[k+2:])
			}
			if strings.HasPrefix(text, "[") {
				if k := strings.Index(text, "]"); k > 0 {
					label = text[1:k]
					text = strings.TrimSpace(text[k+1:])
				}
			}
			e, err := parseCExpr(text)
			if err != nil {
				return perr(err)
			}
			var cprops []string
			if lf := strings.Fields(label); len(lf) > 1 {
				label = lf[0]
				cprops = lf[1:]
			}
			cl := &Clause{Text: text, Expr: e, Label: label, Props: cprops, File: file, Line: it.line}
			switch kw {
			case "requires":
				cur.Req = append(cur.Req, cl)
			case "ensures-trusted":
				cl.Trusted = true
				cur.Ens = append(cur.Ens, cl)
			case "ensures":
				cur.Ens = append(cur.Ens, cl)
			case "assert":
				cur.Asserts[site] = append(cur.Asserts[site], cl)
			}
		case "invariant", "decreases":
			if cur == nil {
				return perr(fmt.Errorf("invariant outside func"))
			}
			k := strings.Index(rest, ":")
			if k < 0 {
				return perr(fmt.Errorf("invariant needs '<loop>: expr'"))
			}
			n, err := strconv.Atoi(strings.TrimSpace(rest[:k]))
			if err != nil {
				return perr(err)
			}
			text := strings.TrimSpace(rest[k+1:])
			label := ""
			if strings.HasPrefix(text, "[") {
				if j := strings.Index(text, "]"); j > 0 {
					label = text[1:j]
					text = strings.TrimSpace(text[j+1:])
				}
			}
			e, err := parseCExpr(text)
			if err != nil {
				return perr(err)
			}
			var iprops []string
			if lf := strings.Fields(label); len(lf) > 1 {
				label = lf[0]
				iprops = lf[1:]
			}
			if kw == "decreases" {
				if cur.Variants == nil {
					cur.Variants = map[int][]*Clause{}
				}
				if label == "" {
					label = "terminates"
				}
				cur.Variants[n] = append(cur.Variants[n], &Clause{Text: text, Expr: e, Label: label, Props: iprops, File: file, Line: it.line})
				break
			}
			cur.Inv[n] = append(cur.Inv[n], &Clause{Text: text, Expr: e, Label: label, Props: iprops, File: file, Line: it.line})
		case "modifies":
			if cur == nil {
				return perr(fmt.Errorf("modifies outside func"))
			}
			for _, part := range splitTop(rest, ',') {
				part = strings.TrimSpace(part)
				if part == "" || part == "nothing" {
					continue
				}
				mi := &ModItem{Text: part}
				switch {
				case part == "*":
					mi.All = true
				case strings.HasPrefix(part, "heap(") && strings.HasSuffix(part, ")"):
					mi.Heap = strings.TrimSpace(part[5 : len(part)-1])
				case strings.HasPrefix(part, "ghost "):
					mi.Heap = "ghost:" + strings.TrimSpace(part[6:])
				case strings.HasPrefix(part, "captured "):
					mi.Captured = strings.TrimSpace(part[9:])
				case strings.HasPrefix(part, "global "):
					mi.Heap = "global:" + strings.TrimSpace(part[7:])
				case strings.HasPrefix(part, "elems(") && strings.HasSuffix(part, ")"):
					e, err := parseCExpr(part[6 : len(part)-1])
					if err != nil {
						return perr(err)
					}
					mi.Expr, mi.Elems = e, true
				case strings.HasPrefix(part, "mapheap(") && strings.HasSuffix(part, ")"):
					e, err := parseCExpr(part[8 : len(part)-1])
					if err != nil {
						return perr(err)
					}
					mi.Expr, mi.MapHeap = e, true
				case strings.HasPrefix(part, "mapof(") && strings.HasSuffix(part, ")"):
					e, err := parseCExpr(part[6 : len(part)-1])
					if err != nil {
						return perr(err)
					}
					mi.Expr, mi.MapOf = e, true
				default:
					e, err := parseCExpr(part)
					if err != nil {
						return perr(err)
					}
					mi.Expr = e
				}
				cur.Mods = append(cur.Mods, mi)
			}
		case "trusted":
			cur.Trusted = true
			if rest != "" {
				cur.Notes = append(cur.Notes, rest)
			}
		case "pure":
			cur.Pure = true
		case "blocking":
			cur.Blocking = true
		case "inline":
			cur.Inline = true
		case "note":
			if cur != nil {
				cur.Notes = append(cur.Notes, rest)
			}
		case "params":
			for _, p := range strings.Split(rest, ",") {
				if p = strings.TrimSpace(p); p != "" {
					cur.Params = append(cur.Params, p)
				}
			}
		case "arith":
			if rest == "wrap" {
				cur.Wrap = true
			}
		case "pred":
			// pred Name(a T, b U) := expr
			k := strings.Index(rest, ":=")
			if k < 0 {
				return perr(fmt.Errorf("pred needs :="))
			}
			head := strings.TrimSpace(rest[:k])
			body := strings.TrimSpace(rest[k+2:])
			op := strings.Index(head, "(")
			if op < 0 || !strings.HasSuffix(head, ")") {
				return perr(fmt.Errorf("pred head"))
			}
			pd := &PredDef{Name: strings.TrimSpace(head[:op]), Text: body, Pkg: pkgPath, File: file, Line: it.line}
			for _, p := range splitTop(head[op+1:len(head)-1], ',') {
				p = strings.TrimSpace(p)
				if p == "" {
					continue
				}
				sp := strings.IndexAny(p, " \t")
				if sp < 0 {
					return perr(fmt.Errorf("pred param %q needs a type", p))
				}
				pd.Params = append(pd.Params, boundVar{Name: p[:sp], Type: strings.TrimSpace(p[sp:])})
			}
			e, err := parseCExpr(body)
			if err != nil {
				return perr(err)
			}
			pd.Body = e
			cs.Preds[pkgPath+"|"+pd.Name] = pd
			if _, ok := cs.Preds["|"+pd.Name]; !ok || pkgPath == "" {
				cs.Preds["|"+pd.Name] = pd
			}
			cur = nil
		case "spec":
			// spec name(T1, T2) R
			op := strings.Index(rest, "(")
			cl := strings.LastIndex(rest, ")")
			if op < 0 || cl < op {
				return perr(fmt.Errorf("spec name(T, ...) R"))
			}
			sd := &SpecDef{Name: strings.TrimSpace(rest[:op]), Ret: strings.TrimSpace(rest[cl+1:]), Pkg: pkgPath}
			for _, p := range splitTop(rest[op+1:cl], ',') {
				if p = strings.TrimSpace(p); p != "" {
					sd.Params = append(sd.Params, p)
				}
			}
			if cs.Specs == nil {
				cs.Specs = map[string]*SpecDef{}
			}
			cs.Specs[sd.Name] = sd
			lastSpec = sd
			cur = nil
		case "axiom":
			if lastSpec == nil {
				return perr(fmt.Errorf("axiom without spec"))
			}
			e, err := parseCExpr(rest)
			if err != nil {
				return perr(err)
			}
			lastSpec.Axioms = append(lastSpec.Axioms, e)
		case "ghost":
			if len(f) < 3 {
				return perr(fmt.Errorf("ghost name type"))
			}
			cs.Ghosts[f[1]] = &GhostDef{Name: f[1], Type: strings.Join(f[2:], " "), Pkg: pkgPath}
			cur = nil
		case "owner":
			// owner T.f lock mu
			if len(f) < 4 {
				return perr(fmt.Errorf("owner T.f lock <field>"))
			}
			cs.Owners = append(cs.Owners, &OwnerDef{Field: f[1], Lock: f[3], Pkg: pkgPath})
			cur = nil
		case "monitor":
			// monitor T.lock protects f1, f2 invariant Pred
			if len(f) < 4 || f[2] != "protects" {
				return perr(fmt.Errorf("monitor T.lock protects f1, f2 [invariant Pred]"))
			}
			k := strings.Index(f[1], ".")
			if k < 0 {
				return perr(fmt.Errorf("monitor needs T.lockfield"))
			}
			md := &MonitorDef{Type: f[1][:k], Lock: f[1][k+1:], Pkg: pkgPath}
			restf := strings.Join(f[3:], " ")
			if j := strings.Index(restf, " invariant "); j >= 0 {
				md.Inv = strings.TrimSpace(restf[j+11:])
				restf = restf[:j]
			}
			for _, fl := range strings.Split(restf, ",") {
				if fl = strings.TrimSpace(fl); fl != "" {
					md.Fields = append(md.Fields, fl)
					cs.Owners = append(cs.Owners, &OwnerDef{Field: md.Type + "." + fl, Lock: md.Lock, Pkg: pkgPath})
				}
			}
			cs.Monitors = append(cs.Monitors, md)
			cur = nil
		case "locks":
			if cur == nil {
				return perr(fmt.Errorf("locks outside func"))
			}
			e, err := parseCExpr(rest)
			if err != nil {
				return perr(err)
			}
			cur.Locks = append(cur.Locks, e)
		case "flagresult":
			if cur == nil {
				return perr(fmt.Errorf("flagresult outside func"))
			}
			cur.FlagResult = true
		case "set":
			// set at call <callee>#k: g := expr   (ghost assignment just before that call; names as in site asserts)
			if cur == nil || !strings.HasPrefix(rest, "at ") {
				return perr(fmt.Errorf("set at <site>: g := expr (inside func)"))
			}
			k0 := strings.Index(rest, ": ")
			k := strings.Index(rest, ":=")
			if k0 < 0 || k < k0 {
				return perr(fmt.Errorf("set at <site>: g := expr"))
			}
			site := strings.TrimSpace(rest[3:k0])
			e, err := parseCExpr(strings.TrimSpace(rest[k+2:]))
			if err != nil {
				return perr(err)
			}
			cur.SiteSets[site] = append(cur.SiteSets[site], &GhostEffect{Name: strings.TrimSpace(rest[k0+2 : k]), Expr: e, Text: rest})
		case "effect":
			// effect g := expr
			k := strings.Index(rest, ":=")
			if k < 0 || cur == nil {
				return perr(fmt.Errorf("effect g := expr (inside func)"))
			}
			e, err := parseCExpr(strings.TrimSpace(rest[k+2:]))
			if err != nil {
				return perr(err)
			}
			cur.Effects = append(cur.Effects, &GhostEffect{Name: strings.TrimSpace(rest[:k]), Expr: e, Text: rest})
		case "invokes":
			// invokes f(v, w) [where expr]
			if cur == nil {
				return perr(fmt.Errorf("invokes outside func"))
			}
			ic := &InvokeClause{Text: rest}
			head := rest
			if k := strings.Index(rest, " where "); k >= 0 {
				if w := strings.Index(rest[:k], " with "); w >= 0 {
					for _, p := range splitTop(rest[w+6:k], ',') {
						p = strings.TrimSpace(p)
						sp := strings.IndexAny(p, " \t")
						if sp < 0 {
							return perr(fmt.Errorf("with: variable needs a type"))
						}
						ic.With = append(ic.With, boundVar{Name: p[:sp], Type: strings.TrimSpace(p[sp:])})
					}
					rest = rest[:w] + rest[k:]
					k = w
				}
				head = strings.TrimSpace(rest[:k])
				e, err := parseCExpr(strings.TrimSpace(rest[k+7:]))
				if err != nil {
					return perr(err)
				}
				ic.Where = e
			}
			op := strings.Index(head, "(")
			if op < 0 || !strings.HasSuffix(head, ")") {
				return perr(fmt.Errorf("invokes f(args)"))
			}
			ic.Param = strings.TrimSpace(head[:op])
			for _, v := range strings.Split(head[op+1:len(head)-1], ",") {
				if v = strings.TrimSpace(v); v != "" {
					ic.Vars = append(ic.Vars, v)
				}
			}
			cur.Invokes = append(cur.Invokes, ic)
		case "preserves", "maintains":
			if cur == nil {
				return perr(fmt.Errorf("%s outside func", kw))
			}
			e, err := parseCExpr(rest)
			if err != nil {
				return perr(err)
			}
			if kw == "preserves" {
				cur.Preserves = append(cur.Preserves, &Clause{Text: rest, Expr: e, File: file, Line: it.line})
			} else {
				cur.Maintains = append(cur.Maintains, &Clause{Text: rest, Expr: e, File: file, Line: it.line})
			}
		case "sort":
			if cs.Sorts == nil {
				cs.Sorts = map[string]bool{}
			}
			cs.Sorts[f[1]] = true
			cur = nil
		case "allocates":
			// allocates T1, T2 | allocates none : struct types of the whole objects this function may allocate
			if cur == nil {
				return perr(fmt.Errorf("allocates outside func"))
			}
			cur.HasAllocates = true
			for _, t := range strings.Split(rest, ",") {
				if t = strings.TrimSpace(t); t != "" && t != "none" {
					cur.Allocates = append(cur.Allocates, t)
				}
			}
		case "freezes":
			// freezes <slice expr>: the callee retains the slice; its backing array must not be written afterwards
			if cur == nil {
				return perr(fmt.Errorf("freezes outside func"))
			}
			e, err := parseCExpr(rest)
			if err != nil {
				return perr(err)
			}
			cur.Freezes = append(cur.Freezes, e)
		case "inmonitor":
			cur.TouchesOwned = true
		case "flagchan":
			cs.FlagChans[pkgPath+"|"+f[1]] = true
			// flagchan T.f signals Pred : close(x.f) requires Pred(x); a completed receive from x.f lets the receiver assume it
			if len(f) >= 4 && f[2] == "signals" {
				cs.FlagSignals[pkgPath+"|"+f[1]] = f[3]
			}
			cur = nil
		}
	}
	return nil
}

func splitTop(s string, sep rune) []string {
	var out []string
	d := 0
	last := 0
	for i, c := range s {
		switch c {
		case '(', '[', '{':
			d++
		case ')', ']', '}':
			d--
		}
		if c == sep && d == 0 {
			out = append(out, s[last:i])
			last = i + 1
		}
	}
	out = append(out, s[last:])
	return out
}

// ---------------- expression language

type boundVar struct {
	Name string
	Type string
}

type CExpr struct {
	Op   string // ident, int, str, bool, nil, sel, index, call, unop, binop, forall, exists, old, typeassert, let, slice
	Name string // ident name / field / operator / callee name
	Args []*CExpr
	Vars []boundVar
	Type string // for typeassert
	Trigs []*CExpr // explicit multi-pattern of a quantifier
	Pos  int
}

func (e *CExpr) String() string {
	switch e.Op {
	case "ident", "int", "bool", "nil":
		return e.Name
	case "str":
		return strconv.Quote(e.Name)
	case "sel":
		return e.Args[0].String() + "." + e.Name
	case "index":
		return e.Args[0].String() + "[" + e.Args[1].String() + "]"
	case "call":
		var as []string
		for _, a := range e.Args {
			as = append(as, a.String())
		}
		return e.Name + "(" + strings.Join(as, ", ") + ")"
	case "unop":
		return e.Name + e.Args[0].String()
	case "binop":
		return "(" + e.Args[0].String() + " " + e.Name + " " + e.Args[1].String() + ")"
	case "forall", "exists":
		var vs []string
		for _, v := range e.Vars {
			vs = append(vs, v.Name+" "+v.Type)
		}
		return "(" + e.Op + " " + strings.Join(vs, ", ") + " :: " + e.Args[0].String() + ")"
	case "old":
		return "old(" + e.Args[0].String() + ")"
	case "typeassert":
		return e.Args[0].String() + ".(" + e.Type + ")"
	}
	return "?"
}

type tok struct {
	kind string // id, int, str, op, eof
	text string
	pos  int
}

func lexCExpr(s string) ([]tok, error) {
	var toks []tok
	i := 0
	for i < len(s) {
		c := s[i]
		switch {
		case c == ' ' || c == '\t':
			i++
		case unicode.IsLetter(rune(c)) || c == '_' || c == '$' || c == '#':
			j := i + 1
			for j < len(s) && (unicode.IsLetter(rune(s[j])) || unicode.IsDigit(rune(s[j])) || s[j] == '_' || s[j] == '$') {
				j++
			}
			toks = append(toks, tok{"id", s[i:j], i})
			i = j
		case c >= '0' && c <= '9':
			j := i + 1
			for j < len(s) && (s[j] >= '0' && s[j] <= '9' || s[j] == '_' || s[j] == 'x' || (s[j] >= 'a' && s[j] <= 'f') || (s[j] >= 'A' && s[j] <= 'F')) {
				j++
			}
			toks = append(toks, tok{"int", s[i:j], i})
			i = j
		case c == '"':
			j := i + 1
			for j < len(s) && s[j] != '"' {
				if s[j] == '\\' {
					j++
				}
				j++
			}
			if j >= len(s) {
				return nil, fmt.Errorf("unterminated string")
			}
			u, err := strconv.Unquote(s[i : j+1])
			if err != nil {
				return nil, err
			}
			toks = append(toks, tok{"str", u, i})
			i = j + 1
		default:
			ops := []string{"<==>", "==>", "::", "==", "!=", "<=", ">=", "&&", "||", "++", ".(", "(", ")", "[", "]", ".", ",", "+", "-", "*", "/", "%", "<", ">", "!", ":", "{", "}"}
			matched := false
			for _, op := range ops {
				if strings.HasPrefix(s[i:], op) {
					toks = append(toks, tok{"op", op, i})
					i += len(op)
					matched = true
					break
				}
			}
			if !matched {
				return nil, fmt.Errorf("unexpected character %q at %d", c, i)
			}
		}
	}
	toks = append(toks, tok{"eof", "", len(s)})
	return toks, nil
}

type cparser struct {
	toks []tok
	p    int
	src  string
}

func parseCExpr(s string) (*CExpr, error) {
	toks, err := lexCExpr(s)
	if err != nil {
		return nil, err
	}
	ps := &cparser{toks: toks, src: s}
	e, err := ps.parseIff()
	if err != nil {
		return nil, err
	}
	if ps.peek().kind != "eof" {
		return nil, fmt.Errorf("trailing tokens at %d: %q", ps.peek().pos, ps.peek().text)
	}
	return e, nil
}

func (ps *cparser) peek() tok { return ps.toks[ps.p] }
func (ps *cparser) next() tok { t := ps.toks[ps.p]; ps.p++; return t }
func (ps *cparser) isOp(s string) bool {
	t := ps.peek()
	return t.kind == "op" && t.text == s
}
func (ps *cparser) expectOp(s string) error {
	if !ps.isOp(s) {
		return fmt.Errorf("expected %q at %d, got %q", s, ps.peek().pos, ps.peek().text)
	}
	ps.p++
	return nil
}

func (ps *cparser) parseIff() (*CExpr, error) {
	l, err := ps.parseImp()
	if err != nil {
		return nil, err
	}
	for ps.isOp("<==>") {
		ps.next()
		r, err := ps.parseImp()
		if err != nil {
			return nil, err
		}
		l = &CExpr{Op: "binop", Name: "<==>", Args: []*CExpr{l, r}}
	}
	return l, nil
}

func (ps *cparser) parseImp() (*CExpr, error) {
	l, err := ps.parseOr()
	if err != nil {
		return nil, err
	}
	if ps.isOp("==>") {
		ps.next()
		r, err := ps.parseImp()
		if err != nil {
			return nil, err
		}
		return &CExpr{Op: "binop", Name: "==>", Args: []*CExpr{l, r}}, nil
	}
	return l, nil
}

func (ps *cparser) parseOr() (*CExpr, error) {
	l, err := ps.parseAnd()
	if err != nil {
		return nil, err
	}
	for ps.isOp("||") {
		ps.next()
		r, err := ps.parseAnd()
		if err != nil {
			return nil, err
		}
		l = &CExpr{Op: "binop", Name: "||", Args: []*CExpr{l, r}}
	}
	return l, nil
}

func (ps *cparser) parseAnd() (*CExpr, error) {
	l, err := ps.parseCmp()
	if err != nil {
		return nil, err
	}
	for ps.isOp("&&") {
		ps.next()
		r, err := ps.parseCmp()
		if err != nil {
			return nil, err
		}
		l = &CExpr{Op: "binop", Name: "&&", Args: []*CExpr{l, r}}
	}
	return l, nil
}

func (ps *cparser) parseCmp() (*CExpr, error) {
	l, err := ps.parseAdd()
	if err != nil {
		return nil, err
	}
	for {
		t := ps.peek()
		if t.kind == "op" && (t.text == "==" || t.text == "!=" || t.text == "<" || t.text == "<=" || t.text == ">" || t.text == ">=") {
			ps.next()
			r, err := ps.parseAdd()
			if err != nil {
				return nil, err
			}
			l = &CExpr{Op: "binop", Name: t.text, Args: []*CExpr{l, r}}
			continue
		}
		return l, nil
	}
}

func (ps *cparser) parseAdd() (*CExpr, error) {
	l, err := ps.parseMul()
	if err != nil {
		return nil, err
	}
	for {
		t := ps.peek()
		if t.kind == "op" && (t.text == "+" || t.text == "-" || t.text == "++") {
			ps.next()
			r, err := ps.parseMul()
			if err != nil {
				return nil, err
			}
			l = &CExpr{Op: "binop", Name: t.text, Args: []*CExpr{l, r}}
			continue
		}
		return l, nil
	}
}

func (ps *cparser) parseMul() (*CExpr, error) {
	l, err := ps.parseUnary()
	if err != nil {
		return nil, err
	}
	for {
		t := ps.peek()
		if t.kind == "op" && (t.text == "*" || t.text == "/" || t.text == "%") {
			ps.next()
			r, err := ps.parseUnary()
			if err != nil {
				return nil, err
			}
			l = &CExpr{Op: "binop", Name: t.text, Args: []*CExpr{l, r}}
			continue
		}
		return l, nil
	}
}

func (ps *cparser) parseUnary() (*CExpr, error) {
	t := ps.peek()
	if t.kind == "op" && (t.text == "!" || t.text == "-") {
		ps.next()
		a, err := ps.parseUnary()
		if err != nil {
			return nil, err
		}
		return &CExpr{Op: "unop", Name: t.text, Args: []*CExpr{a}}, nil
	}
	return ps.parsePostfix()
}

func (ps *cparser) parsePostfix() (*CExpr, error) {
	e, err := ps.parsePrimary()
	if err != nil {
		return nil, err
	}
	for {
		t := ps.peek()
		if t.kind != "op" {
			return e, nil
		}
		switch t.text {
		case ".":
			ps.next()
			id := ps.next()
			if id.kind != "id" {
				return nil, fmt.Errorf("expected field name at %d", id.pos)
			}
			e = &CExpr{Op: "sel", Name: id.text, Args: []*CExpr{e}}
		case ".(":
			ps.next()
			ty, err := ps.parseTypeText(")")
			if err != nil {
				return nil, err
			}
			if err := ps.expectOp(")"); err != nil {
				return nil, err
			}
			e = &CExpr{Op: "typeassert", Type: ty, Args: []*CExpr{e}}
		case "[":
			ps.next()
			// slice expression a[lo:hi] or index
			var lo *CExpr
			if !ps.isOp(":") {
				lo, err = ps.parseIff()
				if err != nil {
					return nil, err
				}
			}
			if ps.isOp(":") {
				ps.next()
				var hi *CExpr
				if !ps.isOp("]") {
					hi, err = ps.parseIff()
					if err != nil {
						return nil, err
					}
				}
				if err := ps.expectOp("]"); err != nil {
					return nil, err
				}
				e = &CExpr{Op: "slice", Args: []*CExpr{e, lo, hi}}
				continue
			}
			if err := ps.expectOp("]"); err != nil {
				return nil, err
			}
			e = &CExpr{Op: "index", Args: []*CExpr{e, lo}}
		case "(":
			// call: only on identifiers or pkg.ident selectors
			name := ""
			switch e.Op {
			case "ident":
				name = e.Name
			case "sel":
				if e.Args[0].Op == "ident" {
					name = e.Args[0].Name + "." + e.Name
				}
			}
			if name == "" {
				return e, nil
			}
			ps.next()
			var args []*CExpr
			for !ps.isOp(")") {
				a, err := ps.parseIff()
				if err != nil {
					return nil, err
				}
				args = append(args, a)
				if ps.isOp(",") {
					ps.next()
				}
			}
			ps.next()
			if name == "old" && len(args) == 1 {
				e = &CExpr{Op: "old", Args: args}
			} else {
				e = &CExpr{Op: "call", Name: name, Args: args}
			}
		default:
			return e, nil
		}
	}
}

// parseTypeText consumes tokens up to (not including) the closing token at depth 0 and returns their text.
func (ps *cparser) parseTypeText(closer string) (string, error) {
	start := ps.peek().pos
	d := 0
	for {
		t := ps.peek()
		if t.kind == "eof" {
			return "", fmt.Errorf("unterminated type")
		}
		if t.kind == "op" {
			if d == 0 && (t.text == closer || t.text == "::" || (closer == "," && t.text == ",")) {
				break
			}
			switch t.text {
			case "(", "[", "{", ".(":
				d++
			case ")", "]", "}":
				d--
			}
		}
		ps.next()
	}
	return strings.TrimSpace(ps.src[start:ps.peek().pos]), nil
}

func (ps *cparser) parsePrimary() (*CExpr, error) {
	t := ps.next()
	switch t.kind {
	case "int":
		return &CExpr{Op: "int", Name: strings.ReplaceAll(t.text, "_", "")}, nil
	case "str":
		return &CExpr{Op: "str", Name: t.text}, nil
	case "id":
		switch t.text {
		case "true", "false":
			return &CExpr{Op: "bool", Name: t.text}, nil
		case "nil":
			return &CExpr{Op: "nil", Name: "nil"}, nil
		case "forall", "exists":
			var vars []boundVar
			for {
				id := ps.next()
				if id.kind != "id" {
					return nil, fmt.Errorf("expected bound variable at %d", id.pos)
				}
				// type text up to ',' or '::'
				start := ps.peek().pos
				d := 0
				for {
					p := ps.peek()
					if p.kind == "eof" {
						return nil, fmt.Errorf("unterminated quantifier")
					}
					if p.kind == "op" && d == 0 && (p.text == "," || p.text == "::" || p.text == "{") {
						break
					}
					if p.kind == "op" && (p.text == "[" || p.text == "(") {
						d++
					}
					if p.kind == "op" && (p.text == "]" || p.text == ")") {
						d--
					}
					ps.next()
				}
				vars = append(vars, boundVar{Name: id.text, Type: strings.TrimSpace(ps.src[start:ps.peek().pos])})
				if ps.isOp(",") {
					ps.next()
					continue
				}
				break
			}
			var trigs []*CExpr
			if ps.isOp("{") {
				ps.next()
				for !ps.isOp("}") {
					te, err := ps.parseIff()
					if err != nil {
						return nil, err
					}
					trigs = append(trigs, te)
					if ps.isOp(",") {
						ps.next()
					}
				}
				ps.next()
			}
			if err := ps.expectOp("::"); err != nil {
				return nil, err
			}
			body, err := ps.parseIff()
			if err != nil {
				return nil, err
			}
			return &CExpr{Op: t.text, Vars: vars, Args: []*CExpr{body}, Trigs: trigs}, nil
		}
		return &CExpr{Op: "ident", Name: t.text}, nil
	case "op":
		if t.text == "(" {
			e, err := ps.parseIff()
			if err != nil {
				return nil, err
			}
			if err := ps.expectOp(")"); err != nil {
				return nil, err
			}
			return e, nil
		}
	}
	return nil, fmt.Errorf("unexpected token %q at %d", t.text, t.pos)
}
