package main

import (
	"encoding/json"
	"flag"
	"fmt"
	"os"
	"path/filepath"
	"sort"
	"strings"
	"sync"
	"time"

	"golang.org/x/tools/go/ssa"
)

type knownFinding struct {
	Property   string `json:"property"`
	Obligation string `json:"obligation"`
	What       string `json:"what"`
}
type fixedFinding struct {
	Property string `json:"property"`
	Commit   string `json:"commit"`
	What     string `json:"what"`
}
type knownFile struct {
	Findings []knownFinding `json:"findings"`
	Fixed    []fixedFinding `json:"fixed"`
}

func main() {
	if len(os.Args) < 2 {
		fmt.Fprintln(os.Stderr, "usage: gvc check|dump|list ...")
		os.Exit(2)
	}
	switch os.Args[1] {
	case "check":
		os.Exit(cmdCheck(os.Args[2:]))
	case "dump":
		cmdDump(os.Args[2:])
	default:
		fmt.Fprintln(os.Stderr, "unknown command")
		os.Exit(2)
	}
}

func cmdDump(args []string) {
	fs := flag.NewFlagSet("dump", flag.ExitOnError)
	repo := fs.String("repo", "/repo", "")
	fs.Parse(args)
	g, err := loadGen(*repo, fs.Args(), "/verif/contracts/stubs")
	if err != nil {
		fmt.Fprintln(os.Stderr, err)
		os.Exit(2)
	}
	for _, p := range fs.Args() {
		for path, sp := range g.spkgs {
			if !strings.HasSuffix(path, strings.TrimPrefix(p, "./")) {
				continue
			}
			var fns []*ssa.Function
			for _, m := range sp.Members {
				if f, ok := m.(*ssa.Function); ok {
					fns = append(fns, f)
				}
			}
			for f := range ssaAllFuncs(g, sp) {
				fns = append(fns, f)
			}
			seen := map[*ssa.Function]bool{}
			sort.Slice(fns, func(i, j int) bool { return fns[i].String() < fns[j].String() })
			for _, f := range fns {
				if seen[f] {
					continue
				}
				seen[f] = true
				fmt.Printf("### %s  (rel: %s)\n", f.String(), relNameSafe(f))
				f.WriteTo(os.Stdout)
			}
		}
	}
}

func ssaAllFuncs(g *Gen, sp *ssa.Package) map[*ssa.Function]bool {
	out := map[*ssa.Function]bool{}
	var visit func(f *ssa.Function)
	visit = func(f *ssa.Function) {
		if out[f] {
			return
		}
		out[f] = true
		for _, a := range f.AnonFuncs {
			visit(a)
		}
	}
	for _, m := range sp.Members {
		switch mm := m.(type) {
		case *ssa.Function:
			visit(mm)
		case *ssa.Type:
			for _, t := range []interface{}{mm.Type()} {
				_ = t
			}
			ms := g.prog.MethodSets.MethodSet(mm.Type())
			for i := 0; i < ms.Len(); i++ {
				if f := g.prog.MethodValue(ms.At(i)); f != nil && f.Pkg == sp {
					visit(f)
				}
			}
			ms = g.prog.MethodSets.MethodSet(ptrTo(mm.Type()))
			for i := 0; i < ms.Len(); i++ {
				if f := g.prog.MethodValue(ms.At(i)); f != nil && f.Pkg == sp {
					visit(f)
				}
			}
		}
	}
	return out
}

// outRoot: where evidence/ and replay/ are written. Partial runs (-only) and experiments on modified trees (GVC_OUT)
// must not overwrite the evidence of the registered checks.
var partialRun bool

func outRoot(verif string) string {
	if e := os.Getenv("GVC_OUT"); e != "" {
		return e
	}
	if partialRun {
		return filepath.Join(os.TempDir(), "gvc-partial")
	}
	return verif
}

type funcResult struct {
	name  string
	con   *Contract
	vc    *VC
	err   error
	ninst int
	secs  float64
}

func cmdCheck(args []string) int {
	fs := flag.NewFlagSet("check", flag.ExitOnError)
	repo := fs.String("repo", "/repo", "repository root")
	prop := fs.String("prop", "", "property id")
	tier := fs.String("tier", "quick", "quick|thorough")
	verif := fs.String("verif", "/verif", "verif root")
	only := fs.String("only", "", "only functions whose name contains this")
	pkgOnly := fs.String("pkg", "", "only functions of the package whose import path ends with this (experiments; evidence goes to the partial-run directory)")
	verbose := fs.Bool("v", false, "verbose")
	keep := fs.Bool("keep", false, "keep smt files")
	fs.Parse(args)
	keepFiles = *keep
	partialRun = *only != "" || *pkgOnly != ""
	siteCoversComplete = *tier == "thorough"
	blockCovers = os.Getenv("GVC_BLOCKCOVERS") != ""
	t0 := time.Now()
	g, err := loadGen(*repo, []string{"./..."}, filepath.Join(*verif, "contracts", "stubs"))
	if err != nil {
		fmt.Fprintln(os.Stderr, "CHECK-ERROR:", err)
		return 2
	}
	loadSecs := time.Since(t0).Seconds()
	// functions under contract for this property
	var keys []string
	for k, c := range g.cs.Funcs {
		if c.NoBody || c.Trusted || c.Pkg == "" {
			continue
		}
		if strings.HasPrefix(c.Name, "iface ") || strings.HasPrefix(c.Name, "field ") || strings.HasPrefix(c.Name, "global ") || strings.HasPrefix(c.Name, "param ") || strings.HasPrefix(c.Name, "captured ") || strings.HasPrefix(c.Name, "result ") || strings.HasPrefix(c.Name, "type ") || strings.HasPrefix(c.Name, "local ") {
			continue
		}
		if *prop != "" && !hasProp(c.Props, *prop) {
			continue
		}
		if *only != "" && !strings.Contains(c.Name, *only) {
			continue
		}
		if *pkgOnly != "" && !strings.HasSuffix(c.Pkg, *pkgOnly) {
			continue
		}
		keys = append(keys, k)
	}
	sort.Strings(keys)
	if len(keys) == 0 {
		fmt.Fprintf(os.Stderr, "CHECK-ERROR: no function under contract for property %s\n", *prop)
		return 2
	}
	workDir, _ := os.MkdirTemp("", "gvc-"+*prop+"-")
	if !*keep {
		defer os.RemoveAll(workDir)
	}
	quickMs, slowMs := 1500, 20000
	if *tier == "thorough" {
		quickMs, slowMs = 10000, 60000
	}
	sem := make(chan struct{}, 16)
	// quick tier: an obligation listed as a known finding is not raced again once the incremental session left it
	// undecided (it is reported as KNOWN-FINDING either way; the thorough tier re-examines it with every solver)
	knownQuick = map[string]bool{}
	if *tier != "thorough" {
		var kf knownFile
		if data, err := os.ReadFile(filepath.Join(*verif, "known_findings.json")); err == nil && json.Unmarshal(data, &kf) == nil {
			for _, f := range kf.Findings {
				knownQuick[f.Obligation] = true
			}
		}
	}
	results := make([]*funcResult, len(keys))
	// generation is sequential (shared canonical-name tables), solving parallel
	var wg sync.WaitGroup
	for i, k := range keys {
		c := g.cs.Funcs[k]
		fr := &funcResult{name: c.Name, con: c}
		results[i] = fr
		fn := g.findFunc(c.Pkg, c.Name)
		if fn == nil {
			fr.err = fmt.Errorf("contract error: %s:%d: function %s not found in %s", c.File, c.Line, c.Name, c.Pkg)
			continue
		}
		for _, b := range fn.Blocks {
			fr.ninst += len(b.Instrs)
		}
		tg := time.Now()
		vc, err := g.verifyFunc(fn, c)
		fr.secs = time.Since(tg).Seconds()
		if err != nil {
			fr.err = err
			continue
		}
		fr.vc = vc
		wg.Add(1)
		// one sub-directory per package: two packages named alike (client, client/gnmi) both have a function New, and
		// their query files must not overwrite each other
		fdir := filepath.Join(workDir, sanitizeFile(c.Pkg))
		go func(vc *VC) {
			defer wg.Done()
			ts := time.Now()
			dischargeVC(vc, fdir, quickMs, slowMs, sem)
			if *verbose {
				fmt.Printf("  solve %.1fs (done at +%.1fs) %s\n", time.Since(ts).Seconds(), time.Since(t0).Seconds(), vc.Func)
			}
		}(vc)
	}
	wg.Wait()
	return report(g, *prop, *tier, *verif, results, time.Since(t0).Seconds(), loadSecs, *verbose, workDir, *keep)
}

func report(g *Gen, prop, tier, verif string, results []*funcResult, wall, loadSecs float64, verbose bool, workDir string, keep bool) int {
	var kf knownFile
	if data, err := os.ReadFile(filepath.Join(verif, "known_findings.json")); err == nil {
		if err := json.Unmarshal(data, &kf); err != nil {
			fmt.Fprintln(os.Stderr, "CHECK-ERROR: known_findings.json:", err)
			return 2
		}
	}
	known := map[string]knownFinding{}
	// findings listed under ANOTHER property: the same obligation can belong to several checks (package-props); the
	// defect is reported by the check of the property it is listed under and is not a violation of this one
	knownElsewhere := map[string]knownFinding{}
	for _, f := range kf.Findings {
		if f.Property == prop {
			known[f.Obligation] = f
		}
	}
	for _, f := range kf.Findings {
		if _, here := known[f.Obligation]; !here && f.Property != prop {
			knownElsewhere[f.Obligation] = f
		}
	}
	var elsewhereNames []string
	exit := 0
	var failed, knownHit []*Obl
	total, discharged, covers, coversOK := 0, 0, 0, 0
	byBackend := map[string]int{}
	solverSecs := 0.0
	var fnList []map[string]interface{}
	var samples []map[string]interface{}
	assumptions := map[string]bool{}
	checkErrors := []string{}
	nContractErr := 0
	for _, fr := range results {
		if fr.err != nil {
			checkErrors = append(checkErrors, fr.err.Error())
			continue
		}
		nobl := 0
		for _, o := range fr.vc.obls {
			if o.Cover {
				covers++
				if o.Result == "unsat" && o.PreReach == "block" {
					fmt.Printf("DEAD-BLOCK: %s %s\n", o.Name, o.Src)
					coversOK++
				} else if o.Result == "unsat" {
					checkErrors = append(checkErrors, "vacuity: "+o.Name+" ("+o.Src+") is unsatisfiable")
				} else {
					coversOK++
				}
				continue
			}
			if prop != "" && !hasProp(o.Props, prop) {
				continue
			}
			nobl++
			solverSecs += o.Secs
			if o.Result == "unsat" {
				if _, isKnown := known[o.Name]; isKnown {
					// a listed finding that now discharges: stale entry, report but do not fail
					fmt.Printf("NOTE: known finding %s now discharges (entry is stale)\n", o.Name)
				}
				total++
				discharged++
				byBackend[o.Backend]++
				if len(samples) < 4 && (o.Kind == "post" || o.Kind == "inv-preserve" || len(samples) < 2) {
					samples = append(samples, map[string]interface{}{"obligation": o.Name, "kind": o.Kind, "source": o.Src, "goal_smt": trunc(o.Goal, 400), "backend": o.Backend, "solver_s": round3(o.Secs)})
				}
				continue
			}
			if _, isKnown := known[o.Name]; isKnown {
				knownHit = append(knownHit, o)
				continue
			}
			if f, other := knownElsewhere[o.Name]; other {
				elsewhereNames = append(elsewhereNames, o.Name+" (listed under "+f.Property+")")
				continue
			}
			total++
			failed = append(failed, o)
		}
		fnList = append(fnList, map[string]interface{}{"function": fr.vc.Func, "ssa_instructions": fr.ninst, "obligations": nobl, "contract": fmt.Sprintf("%s:%d", strings.TrimPrefix(fr.con.File, "/repo/"), fr.con.Line)})
		for n := range fr.vc.notes {
			assumptions[n] = true
		}
		for _, n := range fr.con.Notes {
			assumptions["contract note ("+fr.vc.Func+"): "+n] = true
		}
	}
	// stubs and trusted contracts used are assumptions
	for _, c := range g.cs.Funcs {
		if c.NoBody {
			continue
		}
		if c.Trusted && (prop == "" || hasProp(c.Props, prop)) {
			assumptions["trusted contract (body not verified): "+c.Pkg+"."+c.Name] = true
		}
	}
	os.MkdirAll(filepath.Join(outRoot(verif), "replay"), 0o755)
	// A contract that no longer binds to the code of its function (a name it mentions is gone, a construct left the
	// accepted subset) or that has become vacuous means: the obligations of that function, which were discharged on the
	// unchanged tree, are not discharged any more. That is reported as a violation of the property (named obligation
	// <function>/contract-applies), with the reason in the replay file; the CHECK-ERROR line is kept for the reader.
	for i, e := range checkErrors {
		fmt.Println("CHECK-ERROR:", e)
		name := fmt.Sprintf("contract-applies#%d", i)
		if k := strings.Index(e, " in "); strings.HasPrefix(e, "contract error in ") && k >= 0 {
			rest := e[len("contract error in "):]
			if j := strings.Index(rest, " ("); j >= 0 {
				name = rest[:j] + "/contract-applies"
			}
		} else if strings.HasPrefix(e, "vacuity: ") {
			rest := e[len("vacuity: "):]
			if j := strings.Index(rest, " "); j >= 0 {
				name = rest[:j] + "/not-vacuous"
			}
		}
		rp := filepath.Join(outRoot(verif), "replay", sanitizeFile(prop+"__"+name)+".txt")
		os.WriteFile(rp, []byte("property: "+prop+"\nfailed obligation: "+name+"\nkind: contract-applies\nverdict: the contract of this function can no longer be checked against its code, so none of its obligations is discharged\nreason: "+e+"\ncounterexample: none replayed (no-failing-input-found)\n"), 0o644)
		fmt.Printf("VIOLATION property=%s replay=%s obligation=%s verdict=contract-error no-failing-input-found\n", prop, rp, name)
		if exit == 0 {
			exit = 1
		}
		nContractErr++
	}
	for _, o := range knownHit {
		fmt.Printf("KNOWN-FINDING: property=%s %s: %s\n", prop, o.Name, known[o.Name].What)
	}
	for _, o := range failed {
		rp := filepath.Join(outRoot(verif), "replay", sanitizeFile(prop+"__"+o.Name)+".txt")
		var sb strings.Builder
		sb.WriteString("property: " + prop + "\n")
		sb.WriteString("failed obligation: " + o.Name + "\nkind: " + o.Kind + "\nsource: " + o.Src + "\n")
		if o.Pos.IsValid() {
			sb.WriteString("position: " + o.Pos.String() + "\n")
		}
		sb.WriteString("verdict: " + o.Result + " (" + o.Backend + ")\n")
		sb.WriteString("goal: " + o.Goal + "\nreach: " + o.Reach + "\n")
		sb.WriteString("solver output:\n" + o.Output + "\n")
		sb.WriteString("counterexample: none replayed (no-failing-input-found)\n")
		os.WriteFile(rp, []byte(sb.String()), 0o644)
		fmt.Printf("VIOLATION property=%s replay=%s obligation=%s verdict=%s no-failing-input-found\n", prop, rp, o.Name, o.Result)
		if verbose {
			fmt.Println("   src:", o.Src, " pos:", o.Pos)
		}
		if exit == 0 {
			exit = 1
		}
	}
	// evidence
	var as []string
	for a := range assumptions {
		as = append(as, a)
	}
	sort.Strings(as)
	as = append(as,
		"partial correctness only: termination is not proved",
		"trusted base: go/packages + go/ssa (x/tools v0.29.0) lowering of /repo, the gvc VC generator (unverified), and the SMT solvers",
		"assumed contracts of dependencies: every stub in /verif/contracts/stubs/*.gvc that the verified functions call",
	)
	var knownNames []string
	for _, o := range knownHit {
		knownNames = append(knownNames, o.Name)
	}
	ev := map[string]interface{}{
		"property_id": prop,
		"tier":        tier,
		"seed":        0,
		"level":       "proof",
		"coverage": map[string]interface{}{
			"obligations":              total,
			"discharged":               discharged,
			"checker_cmd":              fmt.Sprintf("/verif/bin/gvc check -prop %s -tier %s (z3 5.1.0 incremental per function; undecided obligations raced on z3 4.8.12, z3 5.1.0, cvc5 1.0.3)", prop, tier),
			"trusted_base":             []string{"go/ssa + go/types (golang.org/x/tools v0.29.0)", "gvc VC generator (this repository, unverified)", "z3 4.8.12", "z3 5.1.0", "cvc5 1.0.3", "stub contracts in /verif/contracts/stubs"},
			"functions_under_contract": fnList,
			"by_backend":               byBackend,
			"solver_s":                 round3(solverSecs),
			"load_s":                   round3(loadSecs),
			"vacuity_covers":           map[string]int{"run": covers, "passed": coversOK},
			"known_finding_obligations": knownNames,
			"known_findings_listed_under_other_properties": elsewhereNames,
			"samples":                  samples,
		},
		"assumptions": as,
		"wall_s":      round3(wall),
		"violations":  len(failed) + nContractErr,
	}
	if len(samples) == 0 {
		ev["coverage"].(map[string]interface{})["samples"] = []interface{}{"no discharged obligation"}
	}
	os.MkdirAll(filepath.Join(outRoot(verif), "evidence"), 0o755)
	data, _ := json.MarshalIndent(ev, "", " ")
	os.WriteFile(filepath.Join(outRoot(verif), "evidence", prop+".json"), data, 0o644)
	fmt.Printf("property %s tier %s: %d functions, %d obligations, %d discharged, %d failed, %d known findings, covers %d/%d, wall %.1fs\n",
		prop, tier, len(fnList), total, discharged, len(failed), len(knownHit), coversOK, covers, wall)
	if verbose {
		for _, fr := range results {
			if fr.vc == nil {
				continue
			}
			fmt.Printf("  gen %.2fs lines=%d glines=%d obls=%d %s\n", fr.secs, len(fr.vc.lines), len(fr.vc.glines), len(fr.vc.obls), fr.vc.Func)
			for _, o := range fr.vc.obls {
				fmt.Printf("  %-8s %-28s %6.2fs %s\n", o.Result, o.Backend, o.Secs, o.Name)
			}
		}
	}
	if keep {
		fmt.Println("smt files kept in", workDir)
	}
	return exit
}

func trunc(s string, n int) string {
	if len(s) > n {
		return s[:n] + "..."
	}
	return s
}
func round3(f float64) float64 { return float64(int(f*1000+0.5)) / 1000 }
