package main

// exec.go: symbolic execution of one go/ssa function over the acyclic CFG
// obtained by cutting loops at invariants; emits the VC stream.

import (
	"path/filepath"
	"bytes"
	"fmt"
	"go/ast"
	"go/constant"
	"go/printer"
	"go/token"
	"go/types"
	"math"
	"sort"
	"strings"

	"golang.org/x/tools/go/ast/astutil"
	"golang.org/x/tools/go/ssa"
)

type val struct {
	t   string
	typ types.Type // may be nil for spec-level values
	srt string
}

type iterInfo struct {
	id     string // iterator id term
	m      string // map term (or "" for string iteration)
	mt     *types.Map
	visComp string
}

type retInfo struct {
	st   *State
	vals []string
	blk  *ssa.BasicBlock // block of the return (for resolving reassigned locals in postconditions)
	ssa  []ssa.Value     // the returned SSA values (an inlined helper returning a flag-channel field passes that on)
}

type Exec struct {
	g      *Gen
	vc     *VC
	fn     *ssa.Function
	con    *Contract
	vals   map[ssa.Value]string
	tups   map[ssa.Value][]string
	addrs  map[ssa.Value]*LValue
	iters  map[ssa.Value]*iterInfo
	constLen map[ssa.Value]int
	entry  *State
	depth  int
	stack  []*ssa.Function
	rets   []retInfo
	prefix string // obligation name prefix
	props  []string
	wrap   bool
	loops  map[*ssa.BasicBlock]*loopInfo
	rpo    []*ssa.BasicBlock
	rpoIdx map[*ssa.BasicBlock]int
	edges  map[*ssa.BasicBlock][]edgeIn
	deferList []*ssa.Defer
	discovery int // >0 while in loop-discovery mode
	structFieldOf map[ssa.Value]*LValue // address of a struct-valued field -> its outer struct/field/object
	flagAlias map[ssa.Value]bool // results of inlined helpers that return a flag-channel field
	lastInlineFlag bool
	runningDefer bool // executing a deferred call (its function value was checked at the defer statement)
	callOrd map[string]int
	paramVals map[string]val
	closureOf map[ssa.Value]*ssa.MakeClosure
	ghostLocals map[string]string
	backStates []backState
	acquired bool
	entryNext string
	selfRef string
	siteOrd map[ssa.Instruction]int
	seenSites map[string]bool
	entry0 *State
	acquiredObjs map[string]bool // objects whose monitor this activation acquired itself (by term)
	preEntry *State
}

type edgeIn struct {
	from *ssa.BasicBlock
	st   *State
	cond string
}

type loopInfo struct {
	header *ssa.BasicBlock
	blocks map[*ssa.BasicBlock]bool
	ord    int
	backs  []*ssa.BasicBlock
	frameComps map[string]bool
	variantHead []string // value of each loop variant at the loop head (arbitrary iteration)
}

func (x *Exec) safe() bool { return true }

// ---------------------------------------------------------------- CFG prep

func (x *Exec) prepCFG() {
	fn := x.fn
	// reverse postorder ignoring back edges (back edge: target dominates source)
	visited := map[*ssa.BasicBlock]bool{}
	var post []*ssa.BasicBlock
	var dfs func(b *ssa.BasicBlock)
	dfs = func(b *ssa.BasicBlock) {
		visited[b] = true
		for _, s := range b.Succs {
			if s.Dominates(b) { // back edge
				continue
			}
			if !visited[s] {
				dfs(s)
			}
		}
		post = append(post, b)
	}
	dfs(fn.Blocks[0])
	if fn.Recover != nil && !visited[fn.Recover] {
		// recover block unreachable in verified code
	}
	x.rpo = nil
	for i := len(post) - 1; i >= 0; i-- {
		x.rpo = append(x.rpo, post[i])
	}
	x.rpoIdx = map[*ssa.BasicBlock]int{}
	for i, b := range x.rpo {
		x.rpoIdx[b] = i
	}
	// loops
	x.loops = map[*ssa.BasicBlock]*loopInfo{}
	for _, b := range x.rpo {
		for _, s := range b.Succs {
			if s.Dominates(b) {
				li := x.loops[s]
				if li == nil {
					li = &loopInfo{header: s, blocks: map[*ssa.BasicBlock]bool{s: true}}
					x.loops[s] = li
				}
				li.backs = append(li.backs, b)
				// natural loop: all nodes that reach b without passing through s
				var stack []*ssa.BasicBlock
				if !li.blocks[b] {
					li.blocks[b] = true
					stack = append(stack, b)
				}
				for len(stack) > 0 {
					n := stack[len(stack)-1]
					stack = stack[:len(stack)-1]
					for _, p := range n.Preds {
						if !li.blocks[p] && visited[p] {
							li.blocks[p] = true
							stack = append(stack, p)
						}
					}
				}
			}
		}
	}
	// loop ordinals in source order of the header's first positioned instruction (fallback: block index)
	var hs []*ssa.BasicBlock
	for h := range x.loops {
		hs = append(hs, h)
	}
	sort.Slice(hs, func(i, j int) bool {
		pi, pj := x.loopPos(x.loops[hs[i]]), x.loopPos(x.loops[hs[j]])
		if pi != pj {
			return pi < pj
		}
		return hs[i].Index < hs[j].Index
	})
	for i, h := range hs {
		x.loops[h].ord = i
	}
	// defers in rpo order
	for _, b := range x.rpo {
		for _, in := range b.Instrs {
			if d, ok := in.(*ssa.Defer); ok {
				x.deferList = append(x.deferList, d)
			}
		}
	}
}

func (x *Exec) loopPos(li *loopInfo) token.Pos {
	best := token.NoPos
	for b := range li.blocks {
		for _, in := range b.Instrs {
			if p := in.Pos(); p.IsValid() && (best == token.NoPos || p < best) {
				best = p
			}
		}
	}
	return best
}

// ---------------------------------------------------------------- running

// run executes the function from state st0; fills x.rets.
func (x *Exec) run(st0 *State) {
	x.prepCFG()
	x.edges = map[*ssa.BasicBlock][]edgeIn{}
	x.edges[x.fn.Blocks[0]] = []edgeIn{{nil, st0, st0.reach}}
	x.runBlocks(x.rpo, nil)
}

// runBlocks processes the given blocks (in rpo order). within: restrict to this loop (discovery) or nil.
func (x *Exec) runBlocks(blocks []*ssa.BasicBlock, within *loopInfo) {
	for _, b := range blocks {
		ins := x.edges[b]
		if len(ins) == 0 {
			continue // unreachable
		}
		var st *State
		if li, isHeader := x.loops[b]; isHeader && li != within {
			st = x.enterLoop(li, ins)
			if st == nil {
				continue
			}
		} else if within != nil && b == within.header {
			// header state prepared by the caller (discovery) : single synthetic edge
			st = ins[0].st.clone()
			st.reach = ins[0].cond
		} else {
			var es []edge
			for _, e := range ins {
				es = append(es, edge{e.st, e.cond})
			}
			st = x.vc.merge(es, fmt.Sprintf("b%d", b.Index))
			// phis
			x.bindPhis(b, ins, nil)
		}
		if blockCovers && x.depth == 0 && x.discovery == 0 && within == nil && len(b.Instrs) > 0 {
			pos := ""
			for _, in := range b.Instrs {
				if in.Pos().IsValid() {
					p := x.g.fset.Position(in.Pos())
					pos = fmt.Sprintf("%s:%d", filepath.Base(p.Filename), p.Line)
					break
				}
			}
			x.vc.oblige(&Obl{Name: fmt.Sprintf("%s/cover/block_%d_%s", x.prefix, b.Index, pos), Kind: "cover", Props: x.props, Reach: st.reach, Goal: "false", Cover: true, PreReach: "block", PreNLines: -1,
				Src: "basic block reachable (" + b.Comment + ")"})
		}
		x.execBlock(b, st, within)
	}
}

// blockCovers: emit a reachability cover per basic block (audit mode / thorough tier). An unreachable block is
// reported as DEAD-BLOCK (information, not an error: code may legitimately be dead under the contract).
var blockCovers bool

func (x *Exec) bindPhis(b *ssa.BasicBlock, ins []edgeIn, only func(e edgeIn) bool) {
	for _, in := range b.Instrs {
		phi, ok := in.(*ssa.Phi)
		if !ok {
			break
		}
		srt := x.vc.sortOf(phi.Type())
		var t string
		var cands []edgeIn
		for _, e := range ins {
			if only == nil || only(e) {
				cands = append(cands, e)
			}
		}
		if len(cands) == 1 {
			t = x.value(phi.Edges[predIndex(b, cands[0].from)])
		} else {
			c := x.vc.fresh("phi_"+phi.Name(), srt)
			for _, e := range cands {
				x.vc.assert(implies(e.cond, eq(c, x.value(phi.Edges[predIndex(b, e.from)]))))
			}
			t = c
		}
		x.vals[phi] = t
	}
}

func predIndex(b, from *ssa.BasicBlock) int {
	for i, p := range b.Preds {
		if p == from {
			return i
		}
	}
	panic("pred not found")
}

// enterLoop: check invariant on entry, discover modified components, havoc, assume invariant.
func (x *Exec) enterLoop(li *loopInfo, ins []edgeIn) *State {
	vc := x.vc
	b := li.header
	// entry edges only (back edges never appear in x.edges for the header: they are consumed at the source)
	var es []edge
	for _, e := range ins {
		es = append(es, edge{e.st, e.cond})
	}
	stIn := vc.merge(es, fmt.Sprintf("loop%d_entry", li.ord))
	x.bindPhis(b, ins, nil)
	invs := x.invariants(li)
	// 1. invariant holds on entry
	for _, cl := range invs {
		env := x.newEnv(stIn, x.oldOf(stIn))
		env.atHeader = b
		t := env.evalBool(cl.Expr)
		x.obligeClause("inv-entry", fmt.Sprintf("loop%d/%s", li.ord, clauseLabel(cl)), stIn.reach, t, cl)
	}
	// 2. discovery of modified components
	savedLines, savedObls := len(vc.lines), len(vc.obls)
	savedDeclared := map[string]bool{}
	for k, v := range vc.declared {
		savedDeclared[k] = v
	}
	savedNotes := map[string]bool{}
	for k, v := range vc.notes {
		savedNotes[k] = v
	}
	savedNames := map[string]int{}
	for k, v := range vc.oblNames {
		savedNames[k] = v
	}
	savedRets := len(x.rets)
	savedCallOrd := map[string]int{}
	for k, v := range x.callOrd {
		savedCallOrd[k] = v
	}
	savedEdges := x.edges
	savedVals := x.vals
	x.vals = map[ssa.Value]string{}
	for k, v := range savedVals {
		x.vals[k] = v
	}
	x.edges = map[*ssa.BasicBlock][]edgeIn{}
	x.discovery++
	// havoc phis for discovery
	for _, in := range b.Instrs {
		if phi, ok := in.(*ssa.Phi); ok {
			x.vals[phi] = vc.fresh("dphi_"+phi.Name(), vc.sortOf(phi.Type()))
		} else {
			break
		}
	}
	dst := stIn.clone()
	x.edges[b] = []edgeIn{{nil, dst, dst.reach}}
	var loopBlocks []*ssa.BasicBlock
	for _, bb := range x.rpo {
		if li.blocks[bb] {
			loopBlocks = append(loopBlocks, bb)
		}
	}
	x.backStates = nil
	x.runBlocks(loopBlocks, li)
	modified := map[string]bool{}
	fullHavoc := false
	for _, bs := range x.backStates {
		if bs.li != li {
			continue
		}
		if bs.st.base != stIn.base {
			fullHavoc = true
		}
		for k := range bs.st.comp {
			if vc.get(bs.st, k) != vc.get(stIn, k) {
				modified[k] = true
			}
		}
	}
	x.discovery--
	// rollback
	vc.lines = vc.lines[:savedLines]
	vc.obls = vc.obls[:savedObls]
	vc.declared = savedDeclared
	vc.notes = savedNotes
	vc.oblNames = savedNames
	x.rets = x.rets[:savedRets]
	x.callOrd = savedCallOrd
	x.edges = savedEdges
	x.vals = savedVals
	x.backStates = nil
	// 3. havoc
	st := stIn.clone()
	if fullHavoc {
		vc.havocAll(st)
		vc.note("loop with unknown callee: full havoc at loop head in " + x.fn.String())
	}
	var mods []string
	for k := range modified {
		mods = append(mods, k)
	}
	sort.Strings(mods)
	for _, k := range mods {
		if strings.HasPrefix(strings.Trim(k, "|"), "armed$") {
			// defers inside loops are outside the subset
			vc.note("defer inside loop (unsupported): " + x.fn.String())
		}
		old := vc.get(st, k)
		c := vc.fresh(strings.Trim(k, "|")+"_loop", vc.reg().sorts[k])
		st.comp[k] = c
		if k == "next" {
			vc.assert(app(">=", c, old))
		}
		if k == "Owned" {
			// ownership only grows
			vc.assert(fmt.Sprintf("(forall ((r Int)) (! (=> (select %s r) (select %s r)) :pattern ((select %s r))))", old, c, old))
		}
		if k == "RType" {
			nx := vc.getNext(stIn)
			vc.assert(fmt.Sprintf("(forall ((x Int)) (! (=> (< x %s) (= (select %s x) (select %s x))) :pattern ((select %s x))))", nx, c, old, c))
		}
		if k == "Frozen" {
			// only allocated arrays can have been retained
			vc.assert(fmt.Sprintf("(forall ((r Int)) (! (=> (select %s r) (< r %s)) :pattern ((select %s r))))", c, vc.getNext(st), c))
		}
		if k == "Calls" {
			vc.assert(fmt.Sprintf("(forall ((r Int)) (! (>= (select %s r) (select %s r)) :pattern ((select %s r))))", c, old, c))
		}
	}
	if modified["RType"] {
		c := st.comp["RType"]
		vc.assert(fmt.Sprintf("(forall ((x Int)) (! (=> (or (<= x 0) (>= x %s)) (= (select %s x) 0)) :pattern ((select %s x))))", vc.get(st, "next"), c, c))
	}
	for _, in := range b.Instrs {
		if phi, ok := in.(*ssa.Phi); ok {
			c := vc.fresh("lphi_"+phi.Name(), vc.sortOf(phi.Type()))
			x.vals[phi] = c
			x.assumeType(st, c, phi.Type())
			if phi.Comment == "rangeindex" {
				vc.assert(app(">=", c, "(- 1)"))
			}
		} else {
			break
		}
	}
	// 3b. implicit frame invariant: what the loop may have changed so far respects the modifies clause
	if x.depth == 0 && !fullHavoc {
		if goals, ok := x.frameGoals(stIn, modified); ok {
			for _, fg := range goals {
				vc.oblige(&Obl{Name: fmt.Sprintf("%s/inv-entry/loop%d/frame/%s", x.prefix, li.ord, fg.bare), Kind: "inv-entry", Props: x.props, Reach: stIn.reach, Goal: fg.goal, Src: "frame so far: " + fg.bare})
			}
		}
		if goals, ok := x.frameGoals(st, modified); ok {
			for _, fg := range goals {
				vc.assert(implies(st.reach, fg.goal))
			}
		}
		li.frameComps = modified
	}
	// 4. assume invariant
	for _, cl := range invs {
		env := x.newEnv(st, x.oldOf(st))
		env.atHeader = b
		t := env.evalBool(cl.Expr)
		vc.assert(implies(st.reach, t))
	}
	// 5. loop variants: their value at the head of an arbitrary iteration
	li.variantHead = nil
	if x.con != nil {
		for _, cl := range x.con.Variants[li.ord] {
			env := x.newEnv(st, x.oldOf(st))
			env.atHeader = b
			v := env.eval(cl.Expr)
			li.variantHead = append(li.variantHead, vc.name(fmt.Sprintf("variant%d", li.ord), sInt, v.t))
		}
	}
	return st
}

type backState struct {
	li *loopInfo
	st *State
}

func (x *Exec) invariants(li *loopInfo) []*Clause {
	if x.con == nil {
		return nil
	}
	return x.con.Inv[li.ord]
}

func clauseLabel(cl *Clause) string {
	if cl.Label != "" {
		return cl.Label
	}
	t := cl.Text
	if len(t) > 60 {
		t = t[:60]
	}
	return t
}

func (x *Exec) obligeClause(kind, name, reach, goal string, cl *Clause) {
	parts := splitAnd(goal)
	for i, g := range parts {
		nm := name
		if len(parts) > 1 {
			nm = fmt.Sprintf("%s.%d", name, i)
		}
		props := x.props
		if len(cl.Props) > 0 {
			props = cl.Props
		}
		o := &Obl{Name: x.prefix + "/" + kind + "/" + nm, Kind: kind, Props: props, Reach: reach, Goal: g, Src: cl.Text}
		o.Pos = token.Position{Filename: cl.File, Line: cl.Line}
		x.vc.oblige(o)
	}
}

// splitAnd splits a top-level conjunction (recursively) into its conjuncts.
func splitAnd(t string) []string {
	if strings.HasPrefix(t, "(=> ") {
		// (=> A (and B C)) splits into (=> A B), (=> A C)
		args := topArgs(t[4 : len(t)-1])
		if len(args) == 2 {
			var out []string
			for _, c := range splitAnd(args[1]) {
				out = append(out, "(=> "+args[0]+" "+c+")")
			}
			return out
		}
		return []string{t}
	}
	if !strings.HasPrefix(t, "(and ") {
		return []string{t}
	}
	var out []string
	for _, p := range topArgs(t[5 : len(t)-1]) {
		out = append(out, splitAnd(p)...)
	}
	return out
}

func topArgs(inner string) []string {
	var parts []string
	d := 0
	inq := false
	start := 0
	for i := 0; i < len(inner); i++ {
		c := inner[i]
		if c == '|' {
			inq = !inq
		}
		if inq {
			continue
		}
		switch c {
		case '(':
			d++
		case ')':
			d--
		case ' ':
			if d == 0 {
				if i > start {
					parts = append(parts, inner[start:i])
				}
				start = i + 1
			}
		}
	}
	if start < len(inner) {
		parts = append(parts, inner[start:])
	}
	return parts
}

// execBlock runs the instructions of b from state st.
func (x *Exec) execBlock(b *ssa.BasicBlock, st *State, within *loopInfo) {
	for _, in := range b.Instrs {
		if _, ok := in.(*ssa.Phi); ok {
			continue
		}
		switch t := in.(type) {
		case *ssa.If:
			c := x.value(t.Cond)
			x.addEdge(b, b.Succs[0], st, and(st.reach, c), within)
			x.addEdge(b, b.Succs[1], st, and(st.reach, not(c)), within)
			return
		case *ssa.Jump:
			x.addEdge(b, b.Succs[0], st, st.reach, within)
			return
		case *ssa.Return:
			var vs []string
			for _, r := range t.Results {
				vs = append(vs, x.value(r))
			}
			x.rets = append(x.rets, retInfo{st, vs, b, t.Results})
			return
		case *ssa.Panic:
			x.implicit(st, in, "panic", "false", "explicit panic")
			return
		default:
			x.instr(st, in)
		}
	}
}

func (x *Exec) addEdge(from, to *ssa.BasicBlock, st *State, cond string, within *loopInfo) {
	if to.Dominates(from) {
		// back edge to loop header `to`
		li := x.loops[to]
		if x.discovery > 0 && within == li {
			x.backStates = append(x.backStates, backState{li, st})
			return
		}
		if x.discovery > 0 {
			// inner loop back edge during outer discovery: handled by the inner loop's own processing
			if within != nil && li != within && within.blocks[to] {
				x.checkBackEdge(li, from, st, cond)
				return
			}
		}
		x.checkBackEdge(li, from, st, cond)
		return
	}
	if within != nil && !within.blocks[to] {
		return // loop exit during discovery: ignore
	}
	cname := cond
	if len(cond) > 60 {
		cname = x.vc.fresh("edge", sBool)
		x.vc.assert(eq(cname, cond))
	}
	x.edges[to] = append(x.edges[to], edgeIn{from, st.clone(), cname})
}

func (x *Exec) checkBackEdge(li *loopInfo, from *ssa.BasicBlock, st *State, cond string) {
	// invariant must be re-established with phis bound to the back-edge values
	saved := map[*ssa.Phi]string{}
	for _, in := range li.header.Instrs {
		phi, ok := in.(*ssa.Phi)
		if !ok {
			break
		}
		saved[phi] = x.vals[phi]
	}
	newVals := map[*ssa.Phi]string{}
	for phi := range saved {
		newVals[phi] = x.value(phi.Edges[predIndex(li.header, from)])
	}
	for phi, v := range newVals {
		x.vals[phi] = v
	}
	s2 := st.clone()
	s2.reach = cond
	for _, cl := range x.invariants(li) {
		env := x.newEnv(s2, x.oldOf(s2))
		env.atHeader = li.header
		t := env.evalBool(cl.Expr)
		x.obligeClause("inv-preserve", fmt.Sprintf("loop%d/%s", li.ord, clauseLabel(cl)), cond, t, cl)
	}
	if x.con != nil && x.discovery == 0 {
		for i, cl := range x.con.Variants[li.ord] {
			if i >= len(li.variantHead) {
				break
			}
			env := x.newEnv(s2, x.oldOf(s2))
			env.atHeader = li.header
			v := env.eval(cl.Expr)
			x.obligeClause("variant", fmt.Sprintf("loop%d/%s", li.ord, clauseLabel(cl)), cond, and(app("<=", "0", li.variantHead[i]), app("<", v.t, li.variantHead[i])), cl)
		}
	}
	if x.depth == 0 && li.frameComps != nil && x.discovery == 0 {
		if goals, ok := x.frameGoals(s2, li.frameComps); ok {
			for _, fg := range goals {
				x.vc.oblige(&Obl{Name: fmt.Sprintf("%s/inv-preserve/loop%d/frame/%s", x.prefix, li.ord, fg.bare), Kind: "inv-preserve", Props: x.props, Reach: cond, Goal: fg.goal, Src: "frame so far: " + fg.bare})
			}
		} else {
			x.vc.oblige(&Obl{Name: fmt.Sprintf("%s/inv-preserve/loop%d/frame/unknown-callee", x.prefix, li.ord), Kind: "inv-preserve", Props: x.props, Reach: cond, Goal: "false", Src: "unknown callee in loop without modifies *"})
		}
	}
	for phi, v := range saved {
		x.vals[phi] = v
	}
}

// ---------------------------------------------------------------- values

func (x *Exec) value(v ssa.Value) string {
	if t, ok := x.vals[v]; ok {
		return t
	}
	switch c := v.(type) {
	case *ssa.Const:
		return x.constTerm(c)
	case *ssa.Function:
		return x.funcRef(c)
	case *ssa.Global:
		// address of a global: only used via load/store (handled there); as a value use a per-global ref
		return x.globalAddr(c)
	case *ssa.Builtin:
		return "0"
	}
	// undefined value (e.g. defined in a block not executed in this pass): fresh unconstrained
	t := x.vc.fresh("undef_"+v.Name(), x.vc.sortOf(v.Type()))
	x.vals[v] = t
	return t
}

func (x *Exec) funcRef(f *ssa.Function) string {
	x.vc.gmode++
	defer func() { x.vc.gmode-- }()
	c := quote("fn$" + f.String())
	if !x.vc.isDeclared(c) {
		x.vc.declConst(c, sInt)
		x.vc.assert("(< " + c + " 0)")
		x.vc.assert(eq(app("fnid", c), x.vc.typeID(types.NewPointer(types.Typ[types.Int]))+"000"+fmt.Sprint(len(x.vc.declared))))
	}
	return c
}

func (x *Exec) globalAddr(g *ssa.Global) string {
	x.vc.gmode++
	defer func() { x.vc.gmode-- }()
	c := quote("addr$" + g.Pkg.Pkg.Path() + "." + g.Name())
	if !x.vc.isDeclared(c) {
		x.vc.declConst(c, sInt)
		x.vc.assert("(< " + c + " 0)")
	}
	return c
}

func (x *Exec) constTerm(c *ssa.Const) string {
	t := c.Type()
	if c.Value == nil {
		return x.vc.zero(t)
	}
	switch u := t.Underlying().(type) {
	case *types.Basic:
		switch {
		case u.Info()&types.IsBoolean != 0:
			if constant.BoolVal(c.Value) {
				return "true"
			}
			return "false"
		case u.Info()&types.IsInteger != 0:
			if i, ok := constant.Int64Val(constant.ToInt(c.Value)); ok {
				return intLit(i)
			}
			if u, ok := constant.Uint64Val(constant.ToInt(c.Value)); ok {
				return uintLit(u)
			}
			return c.Value.ExactString()
		case u.Info()&types.IsString != 0:
			return x.vc.strLit(constant.StringVal(c.Value))
		case u.Info()&types.IsFloat != 0:
			f, _ := constant.Float64Val(c.Value)
			if u.Kind() == types.Float32 {
				return fp32Lit(float32(f))
			}
			return fp64Lit(f)
		}
	}
	return x.vc.zero(t)
}

func fp64Lit(f float64) string {
	b := math.Float64bits(f)
	return fmt.Sprintf("(fp #b%01b #b%011b #b%052b)", b>>63, (b>>52)&0x7ff, b&((1<<52)-1))
}
func fp32Lit(f float32) string {
	b := math.Float32bits(f)
	return fmt.Sprintf("(fp #b%01b #b%08b #b%023b)", b>>31, (b>>23)&0xff, b&((1<<23)-1))
}

func (x *Exec) bind(v ssa.Value, term string) {
	x.vals[v] = x.vc.name(v.Name(), x.vc.sortOf(v.Type()), term)
}

// assumeType adds the type invariant of a value. Guarded by the path condition: the value may be a term determined by
// the state (a load), and an unguarded fact about it would silently constrain paths that never get here.
func (x *Exec) assumeType(st *State, t string, typ types.Type) {
	vc := x.vc
	switch u := typ.Underlying().(type) {
	case *types.Basic:
		if lo, hi, ok := intRange(typ); ok {
			vc.assert(implies(st.reach, and(app("<=", lo, t), app("<=", t, hi))))
		}
	case *types.Pointer, *types.Map, *types.Chan:
		vc.assert(implies(st.reach, app("<", t, vc.getNext(st))))
		if pt, ok := u.(*types.Pointer); ok {
			if _, isStruct := pt.Elem().Underlying().(*types.Struct); isStruct {
				if x.g.trackedStruct(pt.Elem()) {
					vc.regComp("RType", "(Array Int Int)")
					vc.assert(implies(st.reach, implies(app(">", t, "0"), eq(sel(vc.get(st, "RType"), t), vc.structTID(pt.Elem())))))
				}
				if inModule(namedPkg(pt.Elem())) && !x.g.embeddedByValue(pt.Elem()) {
					vc.assert(implies(st.reach, app(">=", t, "0"))) // never a sub-object: nil or a whole allocated object
				}
			}
		}
		if _, isMap := u.(*types.Map); isMap {
			vc.assert(implies(st.reach, app(">=", t, "0")))
		}
		if _, isCh := u.(*types.Chan); isCh {
			vc.assert(implies(st.reach, app(">=", t, "0")))
		}
	case *types.Slice:
		vc.assert(implies(st.reach, and(app("<=", "0", app("s_off", t)), app("<=", "0", app("s_len", t)), app("<=", app("s_len", t), app("s_cap", t)),
			app("<=", "0", app("s_arr", t)), app("<", app("s_arr", t), vc.getNext(st)),
			implies(eq(app("s_arr", t), "0"), eq(app("s_cap", t), "0")), app("<=", app("s_cap", t), "9223372036854775807"))))
	case *types.Interface:
		vc.assert(implies(st.reach, and(app(">=", app("a_typ", t), "0"), implies(eq(app("a_typ", t), "0"), eq(app("a_val", t), "0")), app("<", app("a_val", t), vc.getNext(st)))))
	case *types.Struct:
		for i := 0; i < u.NumFields(); i++ {
			ft := u.Field(i).Type()
			switch ft.Underlying().(type) {
			case *types.Basic, *types.Pointer, *types.Slice, *types.Interface, *types.Map, *types.Chan:
				x.assumeType(st, app(vc.structSel(typ, i), t), ft)
			}
		}
	}
}

// ---------------------------------------------------------------- implicit obligations

func (x *Exec) implicit(st *State, in ssa.Instruction, kind, goal, what string) {
	src := x.srcOf(in)
	name := fmt.Sprintf("%s/%s/%s", x.prefix, kind, src)
	o := &Obl{Name: name, Kind: kind, Props: x.implicitProps(), Reach: st.reach, Goal: goal, Src: what + ": " + src}
	if in != nil && in.Pos().IsValid() {
		o.Pos = x.g.fset.Position(in.Pos())
	}
	x.vc.oblige(o)
	// execution continues only if the check passed
	if goal != "false" {
		r := x.vc.fresh("r", sBool)
		x.vc.assert(eq(r, and(st.reach, goal)))
		st.reach = r
	} else {
		st.reach = "false"
	}
}

func (x *Exec) implicitProps() []string {
	return x.props
}

func (x *Exec) srcOf(in ssa.Instruction) string {
	if in == nil {
		return "?"
	}
	pos := in.Pos()
	if !pos.IsValid() {
		// try operands
		if v, ok := in.(ssa.Value); ok {
			return v.Name()
		}
		return "?"
	}
	f := x.g.fileOf(pos)
	if f == nil {
		return "?"
	}
	path, _ := astutil.PathEnclosingInterval(f, pos, pos)
	for _, n := range path {
		switch e := n.(type) {
		case *ast.SelectorExpr, *ast.IndexExpr, *ast.SliceExpr, *ast.TypeAssertExpr, *ast.CallExpr, *ast.StarExpr, *ast.BinaryExpr, *ast.UnaryExpr, *ast.CompositeLit, *ast.KeyValueExpr, *ast.Ident:
			var buf bytes.Buffer
			printer.Fprint(&buf, x.g.fset, e)
			s := strings.Join(strings.Fields(buf.String()), " ")
			if len(s) > 70 {
				s = s[:70]
			}
			return s
		case ast.Stmt:
			var buf bytes.Buffer
			printer.Fprint(&buf, x.g.fset, e)
			s := strings.Join(strings.Fields(buf.String()), " ")
			if len(s) > 50 {
				s = s[:50]
			}
			return s
		}
	}
	return "?"
}

func (x *Exec) nilCheck(st *State, in ssa.Instruction, ref ssa.Value) {
	// pointers produced by Alloc/FieldAddr/IndexAddr of known non-nil origin need no check
	switch ref.(type) {
	case *ssa.Alloc, *ssa.Global:
		return
	case *ssa.FieldAddr, *ssa.IndexAddr:
		return
	}
	x.implicit(st, in, "nil", not(eq(x.value(ref), "0")), "nil dereference")
}

// ---------------------------------------------------------------- instructions

func (x *Exec) instr(st *State, in ssa.Instruction) {
	vc := x.vc
	switch t := in.(type) {
	case *ssa.DebugRef:
		return
	case *ssa.Alloc:
		et := t.Type().Underlying().(*types.Pointer).Elem()
		tid := "0"
		if _, isStruct := et.Underlying().(*types.Struct); isStruct && x.g.trackedStruct(et) {
			tid = vc.structTID(et)
		}
		ref := x.allocTyped(st, tid)
		x.vals[t] = ref
		switch u := et.Underlying().(type) {
		case *types.Struct:
			vc.zeroStruct(st, et, ref)
		case *types.Array:
			// backing array object
			h := vc.arrHeap(u.Elem())
			vc.set(st, h, store(vc.get(st, h), ref, vc.sq("seq_fill", vc.sortOf(u.Elem()), fmt.Sprint(u.Len()), vc.zero(u.Elem()))))
		default:
			h := vc.cellHeap(et)
			vc.set(st, h, store(vc.get(st, h), ref, vc.zero(et)))
		}
	case *ssa.FieldAddr:
		pt := t.X.Type().Underlying().(*types.Pointer).Elem()
		sty := pt.Underlying().(*types.Struct)
		ft := sty.Field(t.Field).Type()
		if plv, ok := x.addrs[t.X]; ok && plv.kind != "structref" {
			// pointer to a struct value living inside another lvalue
			x.addrs[t] = &LValue{kind: "subfield", parent: plv, st: pt, field: t.Field, typ: ft}
			return
		}
		x.nilCheck(st, in, t.X)
		base := x.value(t.X)
		if _, isStruct := ft.Underlying().(*types.Struct); isStruct {
			x.vals[t] = vc.subRef(pt, t.Field, base)
			if x.structFieldOf == nil {
				x.structFieldOf = map[ssa.Value]*LValue{}
			}
			x.structFieldOf[t] = &LValue{ost: pt, ofield: t.Field, obase: base}
			return
		}
		x.addrs[t] = &LValue{kind: "field", base: base, st: pt, field: t.Field, typ: ft}
	case *ssa.IndexAddr:
		idx := x.value(t.Index)
		switch u := t.X.Type().Underlying().(type) {
		case *types.Slice:
			s := x.value(t.X)
			x.implicit(st, in, "index", and(app("<=", "0", idx), app("<", idx, app("s_len", s))), "index out of range")
			x.addrs[t] = &LValue{kind: "elem", arr: app("s_arr", s), idx: idx, slice: s, typ: u.Elem()}
		case *types.Pointer:
			at := u.Elem().Underlying().(*types.Array)
			x.nilCheck(st, in, t.X)
			if _, isConst := t.Index.(*ssa.Const); !isConst {
				x.implicit(st, in, "index", and(app("<=", "0", idx), app("<", idx, fmt.Sprint(at.Len()))), "index out of range")
			}
			x.addrs[t] = &LValue{kind: "elem", arr: x.value(t.X), idx: idx, typ: at.Elem()}
		}
	case *ssa.UnOp:
		x.unop(st, t)
	case *ssa.Store:
		lv := x.lvalueOf(st, in, t.Addr)
		if lv == nil {
			vc.note("store through unsupported pointer in " + x.fn.String())
			vc.havocAll(st)
			return
		}
		x.ownerCheck(st, in, lv, true)
		if lv.kind == "elem" {
			x.frozenCheck(st, in, "true", lv.arr)
		}
		vc.storeLV(st, lv, x.value(t.Val))
	case *ssa.BinOp:
		x.binop(st, t)
	case *ssa.Call:
		x.call(st, t, &t.Call, t)
	case *ssa.Go:
		x.goStmt(st, t)
	case *ssa.Defer:
		name := x.armedComp(t)
		vc.set(st, name, "true")
		// the function value of `defer f()` is fixed here: a nil f panics when the deferred call runs, so f != nil is
		// checked where the value is known (the deferred run itself may sit behind a loop cut)
		if _, isB := t.Call.Value.(*ssa.Builtin); !isB && !t.Call.IsInvoke() {
			if _, isC := t.Call.Value.(*ssa.MakeClosure); !isC {
				if _, isF := t.Call.Value.(*ssa.Function); !isF {
					x.implicit(st, t, "nilfunc", not(eq(x.value(t.Call.Value), "0")), "deferred call of nil function value")
				}
			}
		}
	case *ssa.RunDefers:
		x.runDefers(st, t)
	case *ssa.ChangeType:
		x.vals[t] = x.value(t.X)
		if lv, ok := x.addrs[t.X]; ok {
			x.addrs[t] = lv
		}
	case *ssa.ChangeInterface:
		x.vals[t] = x.value(t.X)
	case *ssa.Convert:
		x.convert(st, t)
	case *ssa.MakeInterface:
		xt := t.X.Type()
		v := x.value(t.X)
		x.bind(t, app("mk_any", vc.typeID(xt), vc.box(vc.sortOf(xt), v)))
	case *ssa.TypeAssert:
		x.typeAssert(st, t)
	case *ssa.Extract:
		tup := x.tups[t.Tuple]
		if tup == nil {
			x.vals[t] = vc.fresh("extract", vc.sortOf(t.Type()))
			return
		}
		x.vals[t] = tup[t.Index]
	case *ssa.MakeMap:
		mt := t.Type().Underlying().(*types.Map)
		ref := x.alloc(st)
		d, v := vc.mapDom(mt), vc.mapVal(mt)
		ks := vc.sortOf(mt.Key())
		vc.set(st, d, store(vc.get(st, d), ref, "((as const (Array "+ks+" Bool)) false)"))
		vc.set(st, v, store(vc.get(st, v), ref, vc.constArray(ks, vc.sortOf(mt.Elem()), vc.zero(mt.Elem()))))
		x.vals[t] = ref
	case *ssa.MapUpdate:
		mt := t.Map.Type().Underlying().(*types.Map)
		m := x.value(t.Map)
		x.implicit(st, in, "mapwrite", not(eq(m, "0")), "assignment to entry in nil map")
		d, v := vc.mapDom(mt), vc.mapVal(mt)
		k := x.value(t.Key)
		x.ownerCheckMap(st, in, t.Map, true)
		vc.set(st, d, store(vc.get(st, d), m, store(sel(vc.get(st, d), m), k, "true")))
		vc.set(st, v, store(vc.get(st, v), m, store(sel(vc.get(st, v), m), k, x.value(t.Value))))
	case *ssa.Lookup:
		x.lookup(st, t)
	case *ssa.Range:
		x.rangeInstr(st, t)
	case *ssa.Next:
		x.nextInstr(st, t)
	case *ssa.MakeSlice:
		et := t.Type().Underlying().(*types.Slice).Elem()
		ln, cp := x.value(t.Len), x.value(t.Cap)
		x.implicit(st, in, "makeslice", and(app("<=", "0", ln), app("<=", ln, cp)), "makeslice: len out of range")
		ref := x.alloc(st)
		h := vc.arrHeap(et)
		vc.set(st, h, store(vc.get(st, h), ref, vc.sq("seq_fill", vc.sortOf(et), cp, vc.zero(et))))
		x.bind(t, app("mk_slice", ref, "0", ln, cp))
	case *ssa.Slice:
		x.sliceInstr(st, t)
	case *ssa.MakeClosure:
		ref := x.alloc(st)
		x.vals[t] = ref
		x.closureOf[t] = t
	case *ssa.MakeChan:
		ref := x.alloc(st)
		vc.regComp("ChanClosed", "(Array Int Bool)")
		vc.set(st, "ChanClosed", store(vc.get(st, "ChanClosed"), ref, "false"))
		// a channel made here is not the Done channel of a context
		vc.declFun(quote("spec$isctxdone"), []string{sInt}, sBool)
		vc.assert(not(app(quote("spec$isctxdone"), ref)))
		vc.declFun(quote("spec$chancap"), []string{sInt}, sInt)
		vc.assert(implies(st.reach, eq(app(quote("spec$chancap"), ref), x.value(t.Size))))
		x.vals[t] = ref
	case *ssa.Send:
		ch := x.value(t.Chan)
		vc.regComp("ChanClosed", "(Array Int Bool)")
		x.implicit(st, in, "send", not(sel(vc.get(st, "ChanClosed"), ch)), "send on closed channel")
		x.noteSendAttempt(st, ch)
		if comp, ok := vc.lastSentComp(t.X.Type()); ok {
			// lastsent(ch): the value of the latest send statement on ch (scalar, reference and interface elements)
			vc.set(st, comp, store(vc.get(st, comp), ch, x.value(t.X)))
		}
	case *ssa.Select:
		x.selectInstr(st, t)
	case *ssa.Field:
		xv := x.value(t.X)
		x.bind(t, app(vc.structSel(t.X.Type(), t.Field), xv))
	case *ssa.Index:
		xv := x.value(t.X)
		idx := x.value(t.Index)
		switch u := t.X.Type().Underlying().(type) {
		case *types.Array:
			x.implicit(st, in, "index", and(app("<=", "0", idx), app("<", idx, fmt.Sprint(u.Len()))), "index out of range")
			x.bind(t, sel(xv, idx))
		default: // string
			x.implicit(st, in, "index", and(app("<=", "0", idx), app("<", idx, app("str_len", xv))), "string index out of range")
			vc.declFun("str_at", []string{sStr, sInt}, sInt)
			c := vc.name("ch", sInt, app("str_at", xv, idx))
			vc.assert(and(app("<=", "0", c), app("<=", c, "255")))
			x.vals[t] = c
		}
	default:
		// unsupported: havoc the result
		vc.note(fmt.Sprintf("unsupported instruction %T in %s: result havocked", in, x.fn.String()))
		if v, ok := in.(ssa.Value); ok {
			c := vc.fresh("unsup_"+v.Name(), vc.sortOf(v.Type()))
			x.assumeType(st, c, v.Type())
			x.vals[v] = c
		}
	}
}

func (x *Exec) alloc(st *State) string { return x.allocTyped(st, "0") }

// closureAt: fields (of ref kinds) of typed allocated objects point below nx in the current heaps.
// Emitted only for field heaps that this VC has already touched (others carry no knowledge to protect).
func (x *Exec) closureAt(st *State, nx string) {
	vc := x.vc
	r := vc.reg()
	if len(r.fmeta) == 0 || !x.g.needClosure {
		return
	}
	rt := vc.get(st, "RType")
	var names []string
	for k, fm := range r.fmeta {
		if fm.kind == "" {
			continue
		}
		if _, touched := st.comp[k]; !touched && !vc.isDeclared(quote(strings.Trim(k, "|")+"@"+st.base)) {
			continue
		}
		names = append(names, k)
	}
	sort.Strings(names)
	for _, k := range names {
		fm := r.fmeta[k]
		h := vc.get(st, k)
		tgt := "(select " + h + " x)"
		guard := "true"
		switch fm.kind {
		case "slice":
			tgt = "(s_arr " + tgt + ")"
		case "any":
			if !vc.gdecl["is_ref_type"] {
				vc.gdecl["is_ref_type"] = true
				vc.global(func() { vc.raw("(declare-fun is_ref_type (Int) Bool)") })
			}
			guard = "(is_ref_type (a_typ " + tgt + "))"
			tgt = "(a_val " + tgt + ")"
		default:
			tgt = "(root " + tgt + ")"
		}
		vc.assert(implies(st.reach, fmt.Sprintf("(forall ((x Int)) (! (=> (and (= (select %s x) %s) %s) (< %s %s)) :pattern ((select %s x))))", rt, fm.tid, guard, tgt, nx, h)))
	}
}

// allocTyped: a fresh object; tid is the struct type tag of whole struct objects, 0 for everything else
// (maps, backing arrays, cells, channels, closures, iterators).
func (x *Exec) allocTyped(st *State, tid string) string {
	vc := x.vc
	n := vc.getNext(st)
	ref := vc.fresh("ref", sInt)
	vc.assert(eq(ref, n))
	vc.regComp("RType", "(Array Int Int)")
	// heap closure at this moment: no existing object of a struct type points to the new object
	x.closureAt(st, n)
	vc.set(st, "RType", store(vc.get(st, "RType"), ref, tid))
	vc.set(st, "next", app("+", n, "1"))
	return ref
}

func (x *Exec) armedComp(d *ssa.Defer) string {
	idx := -1
	for i, dd := range x.deferList {
		if dd == d {
			idx = i
		}
	}
	name := quote(fmt.Sprintf("armed$%d$%d", x.depth, idx) + "$" + sanitize(x.fn.Name()))
	x.vc.regComp(name, sBool)
	return name
}

// lvalueOf resolves a pointer-typed SSA value to the location it designates.
func (x *Exec) lvalueOf(st *State, in ssa.Instruction, p ssa.Value) *LValue {
	if lv, ok := x.addrs[p]; ok {
		return lv
	}
	if g, ok := p.(*ssa.Global); ok {
		et := g.Type().Underlying().(*types.Pointer).Elem()
		return &LValue{kind: "global", name: x.vc.globalComp(g.Pkg.Pkg.Path(), g.Name(), et), typ: et}
	}
	pt, ok := p.Type().Underlying().(*types.Pointer)
	if !ok {
		return nil
	}
	et := pt.Elem()
	x.nilCheck(st, in, p)
	ref := x.value(p)
	switch et.Underlying().(type) {
	case *types.Struct:
		lv := &LValue{kind: "structref", base: ref, typ: et}
		if o := x.structFieldOf[p]; o != nil {
			lv.ost, lv.ofield, lv.obase = o.ost, o.ofield, o.obase
		}
		return lv
	case *types.Array:
		return nil
	}
	return &LValue{kind: "cell", base: ref, typ: et}
}

func (x *Exec) unop(st *State, t *ssa.UnOp) {
	vc := x.vc
	switch t.Op {
	case token.MUL:
		if gl, ok := t.X.(*ssa.Global); ok && x.g.sentinels[gl] {
			x.vals[t] = x.sentinelTerm(gl)
			return
		}
		lv := x.lvalueOf(st, t, t.X)
		if lv == nil {
			vc.note("load through unsupported pointer in " + x.fn.String())
			c := vc.fresh("ld", vc.sortOf(t.Type()))
			x.assumeType(st, c, t.Type())
			x.vals[t] = c
			return
		}
		x.ownerCheck(st, t, lv, false)
		v := vc.load(st, lv)
		c := vc.name(t.Name(), vc.sortOf(t.Type()), v)
		x.vals[t] = c
		x.assumeLoaded(st, c, t.Type())
		x.assumePreexisting(st, lv, c, t.Type())
		if !(lv.kind == "field" && x.protectedHeaps()[vc.fieldHeap(lv.st, lv.field)]) {
			x.assumeUnowned(st, c, t.Type())
		}
	case token.NOT:
		x.vals[t] = not(x.value(t.X))
	case token.SUB:
		if isFloat(t.Type()) {
			x.bind(t, app("fp.neg", x.value(t.X)))
		} else {
			x.bind(t, x.arith(t.Type(), app("-", x.value(t.X))))
		}
	case token.ARROW:
		// channel receive: blocking; value unknown
		x.blockingOp(t, "channel receive")
		x.syncPoint(st)
		et := t.X.Type().Underlying().(*types.Chan).Elem()
		c := vc.fresh("recv", vc.sortOf(et))
		x.assumeType(st, c, et)
		if x.isFlagChan(t.X) {
			// never sent on: the receive completes only when the channel is closed (same rule as in select)
			vc.regComp("ChanClosed", "(Array Int Bool)")
			vc.assert(implies(st.reach, sel(vc.get(st, "ChanClosed"), x.value(t.X))))
			x.assumeSignal(st, t.X, "true")
		}
		if t.CommaOk {
			ok := vc.fresh("recvok", sBool)
			x.tups[t] = []string{c, ok}
		} else {
			x.vals[t] = c
		}
	case token.XOR:
		c := vc.fresh("xor", sInt)
		x.assumeType(st, c, t.Type())
		x.vals[t] = c
	default:
		c := vc.fresh("unop", vc.sortOf(t.Type()))
		x.vals[t] = c
	}
}

// assumeUnowned: maps and backing arrays reachable by client code are not owned by any monitor
// (discipline assumption: references to monitor-owned objects do not escape the monitor).
func (x *Exec) assumeUnowned(st *State, c string, typ types.Type) {
	if len(x.g.cs.Monitors) == 0 {
		return
	}
	id := ownedID(typ, c)
	if id == "" {
		return
	}
	x.vc.regComp("Owned", "(Array Int Bool)")
	x.vc.assert(implies(st.reach, not(sel(x.vc.get(st, "Owned"), id))))
}

// assumePreexisting: a reference read from a heap that this activation has not written so far, at an object that
// existed on entry, designates an object that existed on entry (heap closure of the entry state).
func (x *Exec) assumePreexisting(st *State, lv *LValue, c string, typ types.Type) {
	vc := x.vc
	if x.entry0 == nil || x.entryNext == "" {
		return
	}
	var heap, base string
	switch lv.kind {
	case "field":
		heap, base = vc.fieldHeap(lv.st, lv.field), app("root", lv.base)
	case "elem":
		heap, base = vc.arrHeap(lv.typ), lv.arr
	default:
		return
	}
	if vc.get(st, heap) != vc.get(x.entry0, heap) {
		return
	}
	var tgt string
	switch typ.Underlying().(type) {
	case *types.Pointer, *types.Map, *types.Chan:
		tgt = app("root", c)
	case *types.Slice:
		tgt = app("s_arr", c)
	default:
		return
	}
	vc.assert(implies(app("<", base, x.entryNext), app("<", tgt, x.entryNext)))
}

// assumeLoaded: type invariant of values read from memory (cheap subset).
func (x *Exec) assumeLoaded(st *State, c string, typ types.Type) {
	switch typ.Underlying().(type) {
	case *types.Basic:
		if _, signed, ok := intBits(typ); ok && (!signed || x.wrap) {
			x.assumeType(st, c, typ)
		}
	case *types.Pointer, *types.Slice, *types.Map, *types.Chan, *types.Interface:
		x.assumeType(st, c, typ)
	}
}

func isFloat(t types.Type) bool {
	b, ok := t.Underlying().(*types.Basic)
	return ok && b.Info()&types.IsFloat != 0
}
func isString(t types.Type) bool {
	b, ok := t.Underlying().(*types.Basic)
	return ok && b.Info()&types.IsString != 0
}
func isInteger(t types.Type) bool {
	b, ok := t.Underlying().(*types.Basic)
	return ok && b.Info()&types.IsInteger != 0
}

// arith applies the function's arithmetic mode to an integer result.
func (x *Exec) arith(t types.Type, term string) string {
	bits, signed, ok := intBits(t)
	if !ok {
		return term
	}
	if !x.wrap {
		x.vc.note("arith math (no-overflow assumed) in " + x.fn.String())
		return term
	}
	if signed {
		return app("wrap_s", term, pow2(bits))
	}
	return app("wrap_u", term, pow2(bits))
}

func (x *Exec) binop(st *State, t *ssa.BinOp) {
	vc := x.vc
	a, b := x.value(t.X), x.value(t.Y)
	xt := t.X.Type()
	switch t.Op {
	case token.EQL, token.NEQ:
		var e string
		if isFloat(xt) {
			e = app("fp.eq", a, b)
		} else if _, isSl := xt.Underlying().(*types.Slice); isSl {
			// only comparison with nil is legal
			other := a
			if c, ok := t.X.(*ssa.Const); ok && c.Value == nil {
				other = b
			}
			e = eq(app("s_arr", other), "0")
		} else {
			e = eq(a, b)
		}
		if t.Op == token.NEQ {
			e = not(e)
		}
		x.bind(t, e)
	case token.LSS, token.LEQ, token.GTR, token.GEQ:
		op := map[token.Token]string{token.LSS: "<", token.LEQ: "<=", token.GTR: ">", token.GEQ: ">="}[t.Op]
		switch {
		case isFloat(xt):
			fop := map[string]string{"<": "fp.lt", "<=": "fp.leq", ">": "fp.gt", ">=": "fp.geq"}[op]
			x.bind(t, app(fop, a, b))
		case isString(xt):
			switch op {
			case "<":
				x.bind(t, app("str_lt", a, b))
			case "<=":
				x.bind(t, or(app("str_lt", a, b), eq(a, b)))
			case ">":
				x.bind(t, app("str_lt", b, a))
			case ">=":
				x.bind(t, or(app("str_lt", b, a), eq(a, b)))
			}
		default:
			x.bind(t, app(op, a, b))
		}
	case token.ADD:
		switch {
		case isString(xt):
			x.bind(t, app("str_cat", a, b))
		case isFloat(xt):
			x.bind(t, app("fp.add", "RNE", a, b))
		default:
			x.bind(t, x.arith(t.Type(), app("+", a, b)))
		}
	case token.SUB:
		if isFloat(xt) {
			x.bind(t, app("fp.sub", "RNE", a, b))
		} else {
			x.bind(t, x.arith(t.Type(), app("-", a, b)))
		}
	case token.MUL:
		if isFloat(xt) {
			x.bind(t, app("fp.mul", "RNE", a, b))
		} else {
			x.bind(t, x.arith(t.Type(), app("*", a, b)))
		}
	case token.QUO:
		if isFloat(xt) {
			x.bind(t, app("fp.div", "RNE", a, b))
			return
		}
		x.implicit(st, t, "div", not(eq(b, "0")), "integer divide by zero")
		// Go truncates toward zero
		q := ite(app(">=", a, "0"), ite(app(">", b, "0"), app("div", a, b), app("-", app("div", a, app("-", b)))),
			ite(app(">", b, "0"), app("-", app("div", app("-", a), b)), app("div", app("-", a), app("-", b))))
		x.bind(t, x.arith(t.Type(), q))
	case token.REM:
		x.implicit(st, t, "div", not(eq(b, "0")), "integer divide by zero")
		absb := ite(app(">", b, "0"), b, app("-", b))
		r := ite(app(">=", a, "0"), app("mod", a, absb), app("-", app("mod", app("-", a), absb)))
		x.bind(t, r)
	case token.LAND, token.LOR:
		// not produced by ssa
	default:
		// shifts, bit ops: uninterpreted within type range
		c := vc.fresh("bitop", vc.sortOf(t.Type()))
		x.assumeType(st, c, t.Type())
		x.vals[t] = c
		vc.note("bit operation abstracted (result arbitrary in type range) in " + x.fn.String())
	}
}

func (x *Exec) convert(st *State, t *ssa.Convert) {
	vc := x.vc
	from, to := t.X.Type(), t.Type()
	v := x.value(t.X)
	switch {
	case isInteger(from) && isInteger(to):
		fb, fs, _ := intBits(from)
		tb, ts, _ := intBits(to)
		if fb <= tb && (fs == ts || (!fs && ts && fb < tb)) {
			x.vals[t] = v // widening, value preserving
			return
		}
		// Go conversion wraps
		if ts {
			x.bind(t, app("wrap_s", v, pow2(tb)))
		} else {
			x.bind(t, app("wrap_u", v, pow2(tb)))
		}
	case isInteger(from) && isFloat(to):
		s := vc.sortOf(to)
		eb, sb := "11", "53"
		if s == sF32 {
			eb, sb = "8", "24"
		}
		x.bind(t, fmt.Sprintf("((_ to_fp %s %s) RNE (to_real %s))", eb, sb, v))
	case isFloat(from) && isFloat(to):
		s := vc.sortOf(to)
		if vc.sortOf(from) == s {
			x.vals[t] = v
			return
		}
		eb, sb := "11", "53"
		if s == sF32 {
			eb, sb = "8", "24"
		}
		x.bind(t, fmt.Sprintf("((_ to_fp %s %s) RNE %s)", eb, sb, v))
	case isFloat(from) && isInteger(to):
		c := vc.fresh("f2i", sInt)
		x.assumeType(st, c, to)
		x.vals[t] = c
		vc.note("float->int conversion abstracted in " + x.fn.String())
	case isString(to):
		// string([]byte) / string(rune): uninterpreted function of the content
		if _, ok := from.Underlying().(*types.Slice); ok {
			h := vc.arrHeap(from.Underlying().(*types.Slice).Elem())
			vc.declFun("str_of_bytes", []string{vc.seqSort(sInt)}, sStr)
			x.bind(t, app("str_of_bytes", vc.view(sInt, vc.get(st, h), v)))
			return
		}
		vc.declFun("str_of_int", []string{sInt}, sStr)
		x.bind(t, app("str_of_int", v))
	case isString(from):
		// []byte(string): fresh slice with unknown content of the right length
		ref := x.alloc(st)
		x.bind(t, app("mk_slice", ref, "0", app("str_len", v), app("str_len", v)))
	default:
		x.vals[t] = v
	}
}

func (x *Exec) typeAssert(st *State, t *ssa.TypeAssert) {
	vc := x.vc
	v := x.value(t.X)
	at := t.AssertedType
	var ok, res string
	if _, isIface := at.Underlying().(*types.Interface); isIface {
		// assertion to interface type: succeeds for non-nil values whose type implements it.
		impl := x.implementers(at)
		if impl == nil {
			okc := vc.fresh("implok", sBool)
			vc.assert(implies(okc, not(eq(app("a_typ", v), "0"))))
			ok = okc
		} else {
			var ds []string
			for _, it := range impl {
				ds = append(ds, eq(app("a_typ", v), vc.typeID(it)))
			}
			ok = or(ds...)
		}
		if iface := at.Underlying().(*types.Interface); iface.NumMethods() == 0 {
			ok = not(eq(app("a_typ", v), "0"))
		}
		res = v
	} else {
		ok = eq(app("a_typ", v), vc.typeID(at))
		res = vc.unbox(vc.sortOf(at), app("a_val", v))
	}
	if t.CommaOk {
		okc := vc.name("taok", sBool, ok)
		r := vc.name(t.Name(), vc.sortOf(at), ite(okc, res, vc.zero(at)))
		if _, isSl := at.Underlying().(*types.Slice); isSl {
			rc := vc.fresh("tasl", sSlice)
			vc.assert(eq(rc, r))
			x.assumeType(st, rc, at)
			r = rc
		}
		x.tups[t] = []string{r, okc}
		return
	}
	x.implicit(st, t, "typeassert", ok, "failed type assertion")
	x.bind(t, res)
	if _, isSl := at.Underlying().(*types.Slice); isSl {
		x.assumeType(st, x.vals[t], at)
	}
	// pointer payloads are allocated refs
	if _, isPtr := at.Underlying().(*types.Pointer); isPtr {
		vc.assert(implies(st.reach, app("<", x.vals[t], vc.getNext(st))))
	}
}

// implementers: concrete types known to the generator that implement iface (nil = unknown).
func (x *Exec) implementers(iface types.Type) []types.Type {
	return nil
}

func (x *Exec) lookup(st *State, t *ssa.Lookup) {
	vc := x.vc
	if mt, ok := t.X.Type().Underlying().(*types.Map); ok {
		m := x.value(t.X)
		k := x.value(t.Index)
		x.ownerCheckMap(st, t, t.X, false)
		present := and(not(eq(m, "0")), sel(sel(vc.get(st, vc.mapDom(mt)), m), k))
		pc := vc.name("has", sBool, present)
		v := ite(pc, sel(sel(vc.get(st, vc.mapVal(mt)), m), k), vc.zero(mt.Elem()))
		c := vc.name(t.Name(), vc.sortOf(mt.Elem()), v)
		x.assumeLoaded(st, c, mt.Elem())
		if t.CommaOk {
			x.tups[t] = []string{c, pc}
		} else {
			x.vals[t] = c
		}
		return
	}
	// string index
	s := x.value(t.X)
	idx := x.value(t.Index)
	x.implicit(st, t, "index", and(app("<=", "0", idx), app("<", idx, app("str_len", s))), "string index out of range")
	vc.declFun("str_at", []string{sStr, sInt}, sInt)
	c := vc.name("ch", sInt, app("str_at", s, idx))
	vc.assert(and(app("<=", "0", c), app("<=", c, "255")))
	x.vals[t] = c
}

func (x *Exec) rangeInstr(st *State, t *ssa.Range) {
	vc := x.vc
	id := x.alloc(st)
	x.vals[t] = id
	if mt, ok := t.X.Type().Underlying().(*types.Map); ok {
		comp := quote("IterVis$" + shortTypeKey(mt.Key()))
		ks := vc.sortOf(mt.Key())
		vc.regComp(comp, "(Array Int (Array "+ks+" Bool))")
		vc.set(st, comp, store(vc.get(st, comp), id, "((as const (Array "+ks+" Bool)) false)"))
		x.iters[t] = &iterInfo{id: id, m: x.value(t.X), mt: mt, visComp: comp}
		return
	}
	// string range: positions abstracted
	x.iters[t] = &iterInfo{id: id}
}

func (x *Exec) nextInstr(st *State, t *ssa.Next) {
	vc := x.vc
	it := x.iters[t.Iter]
	if it == nil || it.mt == nil {
		ok := vc.fresh("nextok", sBool)
		k := vc.fresh("nextk", sInt)
		v := vc.fresh("nextv", sInt)
		x.tups[t] = []string{ok, k, v}
		vc.note("string range abstracted in " + x.fn.String())
		return
	}
	mt := it.mt
	ks := vc.sortOf(mt.Key())
	dom := sel(vc.get(st, vc.mapDom(mt)), it.m)
	vis := sel(vc.get(st, it.visComp), it.id)
	ok := vc.fresh("nextok", sBool)
	k := vc.fresh("nextk", ks)
	x.assumeType(st, k, mt.Key())
	v := vc.fresh("nextv", vc.sortOf(mt.Elem()))
	x.assumeLoaded(st, v, mt.Elem())
	isNil := eq(it.m, "0")
	vc.assert(implies(and(st.reach, ok), and(not(isNil), sel(dom, k), not(sel(vis, k)), eq(v, sel(sel(vc.get(st, vc.mapVal(mt)), it.m), k)))))
	// exhausted: every key currently in the domain was visited
	vc.assert(implies(and(st.reach, not(ok)), or(isNil, fmt.Sprintf("(forall ((kk %s)) (! (=> (select %s kk) (select %s kk)) :pattern ((select %s kk))))", ks, dom, vis, dom))))
	nv := store(vis, k, "true")
	vc.set(st, it.visComp, ite(ok, store(vc.get(st, it.visComp), it.id, nv), vc.get(st, it.visComp)))
	x.tups[t] = []string{ok, k, v}
}

func (x *Exec) sliceInstr(st *State, t *ssa.Slice) {
	vc := x.vc
	xv := x.value(t.X)
	lo := "0"
	if t.Low != nil {
		lo = x.value(t.Low)
	}
	switch u := t.X.Type().Underlying().(type) {
	case *types.Slice:
		hi := app("s_len", xv)
		if t.High != nil {
			hi = x.value(t.High)
		}
		mx := app("s_cap", xv)
		if t.Max != nil {
			mx = x.value(t.Max)
		}
		x.implicit(st, t, "slice", and(app("<=", "0", lo), app("<=", lo, hi), app("<=", hi, mx), app("<=", mx, app("s_cap", xv))), "slice bounds out of range")
		// a nil slice sliced [0:0] stays nil (arr 0)
		x.bind(t, app("mk_slice", app("s_arr", xv), app("+", app("s_off", xv), lo), app("-", hi, lo), app("-", mx, lo)))
		// view-level fact (an instance of the slice-of-slice axiom, stated in the trigger-friendly direction)
		es := vc.sortOf(u.Elem())
		cur := vc.get(st, vc.arrHeap(u.Elem()))
		vc.assert(implies(st.reach, eq(vc.view(es, cur, x.vals[t]), vc.sq("seq_slice", es, vc.view(es, cur, xv), lo, app("-", hi, lo)))))
	case *types.Pointer: // *[N]T
		at := u.Elem().Underlying().(*types.Array)
		n := fmt.Sprint(at.Len())
		hi := n
		if t.High != nil {
			hi = x.value(t.High)
		}
		x.nilCheck(st, t, t.X)
		if t.Low != nil || t.High != nil {
			x.implicit(st, t, "slice", and(app("<=", "0", lo), app("<=", lo, hi), app("<=", hi, n)), "slice bounds out of range")
		} else {
			x.constLen[t] = int(at.Len())
		}
		x.bind(t, app("mk_slice", xv, lo, app("-", hi, lo), app("-", n, lo)))
	default: // string
		hi := app("str_len", xv)
		if t.High != nil {
			hi = x.value(t.High)
		}
		x.implicit(st, t, "slice", and(app("<=", "0", lo), app("<=", lo, hi), app("<=", hi, app("str_len", xv))), "slice bounds out of range")
		vc.declFun("str_sub", []string{sStr, sInt, sInt}, sStr)
		c := vc.name(t.Name(), sStr, app("str_sub", xv, lo, hi))
		vc.assert(implies(st.reach, eq(app("str_len", c), app("-", hi, lo))))
		x.vals[t] = c
	}
}

func (x *Exec) selectInstr(st *State, t *ssa.Select) {
	vc := x.vc
	vc.regComp("ChanClosed", "(Array Int Bool)")
	idx := vc.fresh("selidx", sInt)
	lo := "0"
	if !t.Blocking {
		lo = "(- 1)"
	} else {
		x.blockingOp(t, "blocking select")
	}
	vc.assert(and(app("<=", lo, idx), app("<", idx, fmt.Sprint(len(t.States)))))
	x.syncPoint(st)
	tup := []string{idx, vc.fresh("selok", sBool)}
	closed := vc.get(st, "ChanClosed")
	for i, s := range t.States {
		ch := x.value(s.Chan)
		if s.Dir == types.RecvOnly {
			et := s.Chan.Type().Underlying().(*types.Chan).Elem()
			r := vc.fresh("selrecv", vc.sortOf(et))
			x.assumeType(st, r, et)
			tup = append(tup, r)
			// a closed channel is always ready: with a single case and a default, it must be chosen
			if !t.Blocking && len(t.States) == 1 {
				vc.assert(implies(and(st.reach, sel(closed, ch)), eq(idx, "0")))
			}
			if x.isFlagChan(s.Chan) {
				// never sent on: a receive completes only when closed
				vc.assert(implies(and(st.reach, eq(idx, fmt.Sprint(i))), sel(closed, ch)))
				x.assumeSignal(st, s.Chan, eq(idx, fmt.Sprint(i)))
			}
		} else {
			// send case
			x.implicit(st, t, "send", implies(eq(idx, fmt.Sprint(i)), not(sel(closed, ch))), "send on closed channel")
			x.noteSendAttempt(st, ch)
		}
	}
	x.tups[t] = tup
}

// isFlagChan: a flag channel (declared field, ctx.Done()), or the result of an inlined helper that returned one.
func (x *Exec) isFlagChan(v ssa.Value) bool {
	return x.g.isFlagChan(v) || x.flagAlias[v]
}

// assumeSignal: a completed receive from a channel declared `flagchan T.f signals Pred` lets the receiver assume
// Pred(owner): the closer established it before closing (obligation at the close site), and the predicate is required
// to be stable from then on (stated in the contract file where the flag channel is declared).
func (x *Exec) assumeSignal(st *State, ch ssa.Value, cond string) {
	pred, owner, pkg := x.g.flagSignal(ch)
	if pred == "" {
		return
	}
	env := x.newEnvFor(st, st, pkg)
	env.names["$obj"] = val{x.value(owner), owner.Type(), sInt}
	t := env.evalBool(&CExpr{Op: "call", Name: pred, Args: []*CExpr{{Op: "ident", Name: "$obj"}}})
	x.vc.assert(implies(and(st.reach, cond), t))
	x.vc.note("channel-signalled fact assumed after a receive: " + pred)
}

// lastSentComp: the state component holding the latest value sent per channel, for channels of this element type.
func (vc *VC) lastSentComp(elem types.Type) (string, bool) {
	srt := vc.sortOf(elem)
	var comp string
	switch srt {
	case sInt:
		comp = "LastSent$ref"
	case sAny:
		comp = "LastSent$any"
	case sBool:
		comp = "LastSent$bool"
	case sStr:
		comp = "LastSent$str"
	default:
		return "", false
	}
	vc.regComp(comp, "(Array Int "+srt+")")
	return comp, true
}

// noteSendAttempt: ghost counter of send attempts per channel (a send statement, or a send case of a select whether or
// not it was the case chosen): contracts use sends(ch) to say that a signal was (not) attempted.
func (x *Exec) noteSendAttempt(st *State, ch string) {
	x.vc.regComp("SendAttempts", "(Array Int Int)")
	cur := x.vc.get(st, "SendAttempts")
	x.vc.set(st, "SendAttempts", store(cur, ch, app("+", sel(cur, ch), "1")))
}

func (x *Exec) blockingOp(in ssa.Instruction, what string) {
	if x.g.curEffects != nil {
		x.g.curEffects.blocking = append(x.g.curEffects.blocking, what+" at "+x.srcOf(in))
	}
}

func (x *Exec) runDefers(st *State, in *ssa.RunDefers) {
	for i := len(x.deferList) - 1; i >= 0; i-- {
		d := x.deferList[i]
		armed := x.vc.get(st, x.armedComp(d))
		if armed == "false" {
			continue
		}
		if _, ok := st.comp[x.armedComp(d)]; !ok {
			continue // never armed on any path to here
		}
		// branch: armed -> run call
		s1 := st.clone()
		s1.reach = and(st.reach, armed)
		x.runningDefer = true
		x.call(s1, d, &d.Call, nil)
		x.runningDefer = false
		s0 := st.clone()
		merged := x.vc.merge([]edge{{s1, s1.reach}, {s0, and(st.reach, not(armed))}}, "defer")
		*st = *merged
	}
}

func (x *Exec) goStmt(st *State, g *ssa.Go) {
	// spawn: callee preconditions are obligations of the spawner; the only effect is the ghost spawn counter
	x.g.noteSpawn(x, g)
	x.spawnCheck(st, g)
	x.vc.regComp("Spawns", sInt)
	x.vc.set(st, "Spawns", app("+", x.vc.get(st, "Spawns"), "1"))
}

func namedPkg(t types.Type) *types.Package {
	if n, ok := t.(*types.Named); ok {
		return n.Obj().Pkg()
	}
	return nil
}
