package main

// state.go: symbolic state (versioned components = heaps, globals, ghosts),
// merging at control-flow joins, lvalues.

import (
	"fmt"
	"go/types"
	"sort"
	"strings"
)

type State struct {
	reach string
	comp  map[string]string
	base  string
	entry *State // the state old(...) refers to on this path (nil: the function entry)
}

func (s *State) clone() *State {
	n := &State{reach: s.reach, comp: make(map[string]string, len(s.comp)), base: s.base, entry: s.entry}
	for k, v := range s.comp {
		n.comp[k] = v
	}
	return n
}

type baseMerge struct {
	conds []string
	bases []string
}

// component registry lives on the VC (sorts) ; base merges too
type compReg struct {
	sorts  map[string]string
	fmeta  map[string]fieldMeta
	merges map[string]*baseMerge
	nbase  int
}

func (vc *VC) reg() *compReg {
	if vc.creg == nil {
		vc.creg = &compReg{sorts: map[string]string{}, merges: map[string]*baseMerge{}}
	}
	return vc.creg
}

func (vc *VC) regComp(name, sort string) {
	r := vc.reg()
	if old, ok := r.sorts[name]; ok && old != sort {
		panic(fmt.Sprintf("component %s registered with sorts %s and %s", name, old, sort))
	}
	r.sorts[name] = sort
}

func (vc *VC) newBase() string {
	r := vc.reg()
	r.nbase++
	return fmt.Sprintf("b%d", r.nbase)
}

// baseConst returns the constant standing for component name in untouched base b.
func (vc *VC) baseConst(name, b string) string {
	r := vc.reg()
	srt, ok := r.sorts[name]
	if !ok {
		panic("unregistered component " + name)
	}
	c := quote(strings.Trim(name, "|") + "@" + b)
	if vc.isDeclared(c) {
		return c
	}
	vc.declConst(c, srt)
	if m, ok := r.merges[b]; ok {
		for i, pb := range m.bases {
			vc.assert(implies(m.conds[i], eq(c, vc.baseConst(name, pb))))
		}
	}
	if name == "next" {
		vc.assert("(> " + c + " 0)")
	}
	if name == "RType" && b == "b0" {
		// nothing at or beyond the allocation counter, and nothing at nil or at sub-object refs, is a whole struct object
		vc.assert(fmt.Sprintf("(forall ((x Int)) (! (=> (or (<= x 0) (>= x %s)) (= (select %s x) 0)) :pattern ((select %s x))))", vc.baseConst("next", b), c, c))
	}
	if name == "Frozen" {
		vc.assert(fmt.Sprintf("(forall ((r Int)) (! (=> (select %s r) (< r %s)) :pattern ((select %s r))))", c, vc.baseConst("next", b), c))
	}
	if strings.HasPrefix(strings.Trim(name, "|"), "armed$") {
		vc.assert(not(c)) // a defer that was never reached is not armed
	}
	return c
}

func (vc *VC) get(s *State, name string) string {
	if t, ok := s.comp[name]; ok {
		return t
	}
	return vc.baseConst(name, s.base)
}

func (vc *VC) set(s *State, name, term string) {
	srt := vc.reg().sorts[name]
	if srt == "" {
		panic("set of unregistered component " + name)
	}
	s.comp[name] = vc.name(strings.TrimSuffix(strings.TrimPrefix(name, "|"), "|"), srt, term)
}

// havocAll forgets every component (unknown callee).
func (vc *VC) havocAll(s *State) {
	oldNext := vc.getNext(s)
	keep := map[string]string{}
	for k, v := range s.comp {
		if strings.HasPrefix(strings.Trim(k, "|"), "armed$") || k == "Spawns" || k == "SiteHits" || k == "Held" || k == "RType" || k == "Frozen" {
			keep[k] = v
		}
	}
	if _, ok := vc.reg().sorts["Spawns"]; ok {
		keep["Spawns"] = vc.get(s, "Spawns")
	}
	if _, ok := vc.reg().sorts["SiteHits"]; ok {
		keep["SiteHits"] = vc.get(s, "SiteHits")
	}
	if _, ok := vc.reg().sorts["Held"]; ok {
		keep["Held"] = vc.get(s, "Held") // a callee returns with the locks it was entered with (`modifies *` does not cover them)
	}
	// cells of this activation's own local variables cannot be reached by a callee (unless their address escapes,
	// which the subset excludes): they keep their values
	type kept struct{ name, old string }
	var cells []kept
	if vc.localsFrom != "" {
		for k := range vc.reg().sorts {
			if strings.HasPrefix(strings.Trim(k, "|"), "Cell$") {
				if _, touched := s.comp[k]; touched {
					cells = append(cells, kept{k, s.comp[k]})
				}
			}
		}
	}
	s.comp = keep
	s.base = vc.newBase()
	sort.Slice(cells, func(i, j int) bool { return cells[i].name < cells[j].name })
	for _, c := range cells {
		nc := vc.get(s, c.name)
		vc.assert(fmt.Sprintf("(forall ((r Int)) (! (=> (>= r %s) (= (select %s r) (select %s r))) :pattern ((select %s r))))", vc.localsFrom, nc, c.old, nc))
	}
	n := vc.getNext(s)
	vc.assert(app(">=", n, oldNext))
}

func (vc *VC) getNext(s *State) string {
	vc.regComp("next", sInt)
	return vc.get(s, "next")
}

type edge struct {
	st   *State
	cond string // reach of the edge (already includes st.reach)
}

// merge joins states arriving over edges.
func (vc *VC) merge(edges []edge, label string) *State {
	if len(edges) == 0 {
		return nil
	}
	if len(edges) == 1 {
		s := edges[0].st.clone()
		s.reach = edges[0].cond
		return s
	}
	var conds []string
	for _, e := range edges {
		conds = append(conds, e.cond)
	}
	r := vc.fresh("reach_"+label, sBool)
	vc.assert(eq(r, or(conds...)))
	out := &State{reach: r, comp: map[string]string{}}
	// the old-state of the paths being joined
	sameEntry := true
	for _, e := range edges[1:] {
		if e.st.entry != edges[0].st.entry {
			sameEntry = false
		}
	}
	if sameEntry {
		out.entry = edges[0].st.entry
	} else {
		var ees []edge
		ok := true
		for _, e := range edges {
			if e.st.entry == nil {
				ok = false
				break
			}
			ees = append(ees, edge{e.st.entry, e.cond})
		}
		if ok {
			out.entry = vc.merge(ees, label+"_old")
		}
	}
	// base
	sameBase := true
	for _, e := range edges[1:] {
		if e.st.base != edges[0].st.base {
			sameBase = false
		}
	}
	if sameBase {
		out.base = edges[0].st.base
	} else {
		out.base = vc.newBase()
		bm := &baseMerge{}
		for _, e := range edges {
			bm.conds = append(bm.conds, e.cond)
			bm.bases = append(bm.bases, e.st.base)
		}
		vc.reg().merges[out.base] = bm
	}
	names := map[string]bool{}
	for _, e := range edges {
		for k := range e.st.comp {
			names[k] = true
		}
	}
	var ks []string
	for k := range names {
		ks = append(ks, k)
	}
	sort.Strings(ks)
	for _, k := range ks {
		first := vc.get(edges[0].st, k)
		same := true
		for _, e := range edges[1:] {
			if vc.get(e.st, k) != first {
				same = false
				break
			}
		}
		if same {
			if _, touched := edges[0].st.comp[k]; touched || !sameBase {
				out.comp[k] = first
			}
			continue
		}
		c := vc.fresh(strings.Trim(k, "|")+"_j", vc.reg().sorts[k])
		for _, e := range edges {
			vc.assert(implies(e.cond, eq(c, vc.get(e.st, k))))
		}
		out.comp[k] = c
	}
	return out
}

// ---------- lvalues

type LValue struct {
	kind   string // field, cell, elem, global, subfield
	base   string // ref (field, cell)
	st     types.Type // struct type (field, subfield)
	field  int
	typ    types.Type // type of the stored value
	arr    string
	idx    string
	name   string // component (global)
	slice  string // elem: the slice value (idx is relative to it); "" for arrays (idx absolute)
	parent *LValue
	// structref made from a struct-valued FIELD of another struct: that outer struct, field and object (ownership checks)
	ost    types.Type
	ofield int
	obase  string
}

type fieldMeta struct {
	tid  string
	kind string // ref, slice, any, ""
}

func (vc *VC) fieldHeap(st types.Type, i int) string {
	s := st.Underlying().(*types.Struct)
	name := quote("H$" + canonStructName(st) + "$" + s.Field(i).Name())
	vc.regComp(name, "(Array Int "+vc.sortOf(s.Field(i).Type())+")")
	r := vc.reg()
	if r.fmeta == nil {
		r.fmeta = map[string]fieldMeta{}
	}
	if _, ok := r.fmeta[name]; !ok {
		kind := ""
		switch s.Field(i).Type().Underlying().(type) {
		case *types.Pointer, *types.Map, *types.Chan:
			kind = "ref"
		case *types.Slice:
			kind = "slice"
		case *types.Interface:
			kind = "any"
		}
		r.fmeta[name] = fieldMeta{vc.structTID(st), kind}
	}
	return name
}

func (vc *VC) cellHeap(t types.Type) string {
	name := quote("Cell$" + shortTypeKey(t))
	vc.regComp(name, "(Array Int "+vc.sortOf(t)+")")
	return name
}

func (vc *VC) arrHeap(elem types.Type) string {
	name := quote("Arr$" + shortTypeKey(elem))
	vc.regComp(name, "(Array Int "+vc.seqSort(vc.sortOf(elem))+")")
	return name
}

func (vc *VC) mapDom(m *types.Map) string {
	name := quote("MapDom$" + shortTypeKey(m.Key()) + "$" + shortTypeKey(m.Elem()))
	vc.regComp(name, "(Array Int (Array "+vc.sortOf(m.Key())+" Bool))")
	return name
}

func (vc *VC) mapVal(m *types.Map) string {
	name := quote("MapVal$" + shortTypeKey(m.Key()) + "$" + shortTypeKey(m.Elem()))
	vc.regComp(name, "(Array Int (Array "+vc.sortOf(m.Key())+" "+vc.sortOf(m.Elem())+"))")
	return name
}

func (vc *VC) globalComp(pkgPath, name string, t types.Type) string {
	c := quote("G$" + pkgPath + "." + name)
	vc.regComp(c, vc.sortOf(t))
	return c
}

// card: cardinality of a key set, axiomatised per key sort.
func (vc *VC) card(keySort, set string) string {
	vc.gmode++
	defer func() { vc.gmode-- }()
	f := quote("card$" + keySort)
	if !vc.isDeclared(f) {
		setSort := "(Array " + keySort + " Bool)"
		vc.declFun(f, []string{setSort}, sInt)
		w := quote("wit$" + keySort)
		vc.declFun(w, []string{setSort}, keySort)
		vc.assert(fmt.Sprintf("(forall ((s %s)) (! (>= (%s s) 0) :pattern ((%s s))))", setSort, f, f))
		vc.assert(fmt.Sprintf("(= (%s ((as const %s) false)) 0)", f, setSort))
		vc.assert(fmt.Sprintf("(forall ((s %s) (k %s)) (! (= (%s (store s k true)) (+ (%s s) (ite (select s k) 0 1))) :pattern ((%s (store s k true)))))", setSort, keySort, f, f, f))
		vc.assert(fmt.Sprintf("(forall ((s %s) (k %s)) (! (= (%s (store s k false)) (- (%s s) (ite (select s k) 1 0))) :pattern ((%s (store s k false)))))", setSort, keySort, f, f, f))
		vc.assert(fmt.Sprintf("(forall ((s %s) (k %s)) (! (=> (select s k) (> (%s s) 0)) :pattern ((select s k) (%s s))))", setSort, keySort, f, f))
		vc.assert(fmt.Sprintf("(forall ((s %s)) (! (=> (> (%s s) 0) (select s (%s s))) :pattern ((%s s))))", setSort, f, w, f))
		// a singleton has one element
		vc.assert(fmt.Sprintf("(forall ((s %s) (a %s) (b %s)) (! (=> (and (= (%s s) 1) (select s a) (select s b)) (= a b)) :pattern ((%s s) (select s a) (select s b))))", setSort, keySort, keySort, f, f))
	}
	return app(f, set)
}

func (vc *VC) load(s *State, lv *LValue) string {
	switch lv.kind {
	case "field":
		return sel(vc.get(s, vc.fieldHeap(lv.st, lv.field)), lv.base)
	case "cell":
		return sel(vc.get(s, vc.cellHeap(lv.typ)), lv.base)
	case "elem":
		es := vc.sortOf(lv.typ)
		if lv.slice != "" {
			return vc.sq("seq_idx", es, vc.view(es, vc.get(s, vc.arrHeap(lv.typ)), lv.slice), lv.idx)
		}
		return vc.sq("seq_idx", es, sel(vc.get(s, vc.arrHeap(lv.typ)), lv.arr), lv.idx)
	case "global":
		return vc.get(s, lv.name)
	case "subfield":
		pv := vc.load(s, lv.parent)
		return app(vc.structSel(lv.st, lv.field), pv)
	case "structref":
		return vc.loadStruct(s, lv.typ, lv.base)
	}
	panic("load: bad lvalue " + lv.kind)
}

func (vc *VC) storeLV(s *State, lv *LValue, v string) {
	switch lv.kind {
	case "field":
		h := vc.fieldHeap(lv.st, lv.field)
		vc.set(s, h, store(vc.get(s, h), lv.base, v))
	case "cell":
		h := vc.cellHeap(lv.typ)
		vc.set(s, h, store(vc.get(s, h), lv.base, v))
	case "elem":
		h := vc.arrHeap(lv.typ)
		cur := vc.get(s, h)
		ix := lv.idx
		if lv.slice != "" {
			ix = app("+", app("s_off", lv.slice), lv.idx)
		}
		vc.set(s, h, store(cur, lv.arr, vc.sq("seq_upd", vc.sortOf(lv.typ), sel(cur, lv.arr), ix, v)))
	case "global":
		vc.set(s, lv.name, v)
	case "subfield":
		pv := vc.load(s, lv.parent)
		st := lv.st.Underlying().(*types.Struct)
		var args []string
		for i := 0; i < st.NumFields(); i++ {
			if i == lv.field {
				args = append(args, v)
			} else {
				args = append(args, app(vc.structSel(lv.st, i), pv))
			}
		}
		vc.storeLV(s, lv.parent, app(vc.structCtor(lv.st), args...))
	case "structref":
		vc.storeStruct(s, lv.typ, lv.base, v)
	default:
		panic("store: bad lvalue " + lv.kind)
	}
}

// loadStruct reads a whole struct value living at ref (fields in field heaps).
func (vc *VC) loadStruct(s *State, t types.Type, ref string) string {
	st := t.Underlying().(*types.Struct)
	var args []string
	for i := 0; i < st.NumFields(); i++ {
		ft := st.Field(i).Type()
		if _, ok := ft.Underlying().(*types.Struct); ok {
			args = append(args, vc.loadStruct(s, ft, vc.subRef(t, i, ref)))
		} else {
			args = append(args, sel(vc.get(s, vc.fieldHeap(t, i)), ref))
		}
	}
	return app(vc.structCtor(t), args...)
}

func (vc *VC) storeStruct(s *State, t types.Type, ref, v string) {
	st := t.Underlying().(*types.Struct)
	for i := 0; i < st.NumFields(); i++ {
		ft := st.Field(i).Type()
		fv := app(vc.structSel(t, i), v)
		if _, ok := ft.Underlying().(*types.Struct); ok {
			vc.storeStruct(s, ft, vc.subRef(t, i, ref), fv)
		} else {
			h := vc.fieldHeap(t, i)
			vc.set(s, h, store(vc.get(s, h), ref, fv))
		}
	}
}

// zeroStruct initialises all fields of a freshly allocated struct at ref.
func (vc *VC) zeroStruct(s *State, t types.Type, ref string) {
	st := t.Underlying().(*types.Struct)
	for i := 0; i < st.NumFields(); i++ {
		ft := st.Field(i).Type()
		if _, ok := ft.Underlying().(*types.Struct); ok {
			vc.zeroStruct(s, ft, vc.subRef(t, i, ref))
		} else {
			h := vc.fieldHeap(t, i)
			vc.set(s, h, store(vc.get(s, h), ref, vc.zero(ft)))
		}
	}
}
