package main

// expr.go: evaluation of contract expressions to SMT terms.

import (
	"fmt"
	"go/constant"
	"go/types"
	"strconv"
	"strings"

	"golang.org/x/tools/go/ssa"
)

type Env struct {
	paramsAtEntry bool // postconditions: a parameter name denotes its value on entry, even if the body reassigns it
	x        *Exec
	vc       *VC
	cur, old *State
	names    map[string]val
	atHeader *ssa.BasicBlock
	atBlock  *ssa.BasicBlock // program point for resolving reassigned locals
	callee   *target
	pkg      *types.Package
	own      bool // evaluating the verified function's own contract (SSA locals visible)
	capturedCell map[string]func() (string, string) // captured variable -> (cell heap, ref)
	lazy     map[string]func(*Env) val // state-dependent names (captured variables seen from outside the closure)
	predDepth int
}

func (x *Exec) newEnv(cur, old *State) *Env {
	e := &Env{x: x, vc: x.vc, cur: cur, old: old, names: map[string]val{}, pkg: x.fn.Pkg.Pkg, own: true}
	// captured variables of the function itself (closure under contract)
	if len(x.fn.FreeVars) > 0 {
		e.capturedCell = map[string]func() (string, string){}
		for _, fv := range x.fn.FreeVars {
			fvv := fv
			if pt, ok := fv.Type().Underlying().(*types.Pointer); ok {
				if _, isStruct := pt.Elem().Underlying().(*types.Struct); !isStruct {
					e.capturedCell[fv.Name()] = func() (string, string) { return x.vc.cellHeap(pt.Elem()), x.value(fvv) }
				}
			}
		}
	}
	return e
}

func (x *Exec) newEnvFor(cur, old *State, pkg *types.Package) *Env {
	if pkg == nil {
		pkg = x.fn.Pkg.Pkg
	}
	return &Env{x: x, vc: x.vc, cur: cur, old: old, names: map[string]val{}, pkg: pkg}
}

func (e *Env) cloneWith(cur *State) *Env {
	n := *e
	n.cur = cur
	n.names = map[string]val{}
	for k, v := range e.names {
		n.names[k] = v
	}
	return &n
}

func (e *Env) bindCallArgs(tgt *target, recv *val, args []val) {
	if recv != nil {
		e.names["recv"] = *recv
	}
	for i, a := range args {
		e.names[fmt.Sprintf("arg%d", i)] = a
		if e.own {
			continue // caller-side assertion: the caller's own locals keep their names, arguments are argN
		}
		if i < len(tgt.params) && tgt.params[i] != "" && tgt.params[i] != "_" {
			e.names[tgt.params[i]] = a
		}
	}
}

func (e *Env) bindResults(sig *types.Signature, results []string) {
	for i := 0; i < sig.Results().Len(); i++ {
		rv := sig.Results().At(i)
		v := val{results[i], rv.Type(), e.vc.sortOf(rv.Type())}
		e.names[fmt.Sprintf("res%d", i)] = v
		if rv.Name() != "" && rv.Name() != "_" {
			e.names[rv.Name()] = v
		}
	}
	if sig.Results().Len() == 1 {
		rv := sig.Results().At(0)
		e.names["res"] = val{results[0], rv.Type(), e.vc.sortOf(rv.Type())}
	}
}

func (e *Env) fail(format string, a ...interface{}) {
	msg := fmt.Sprintf(format, a...)
	if e.callee != nil {
		msg += " (while applying the contract of " + e.callee.display + ")"
	}
	panic(contractErr(msg))
}

func (e *Env) evalBool(c *CExpr) string {
	v := e.eval(c)
	if v.srt != sBool {
		e.fail("expected bool, got %s in %s", v.srt, c.String())
	}
	return v.t
}

func boolVal(t string) val { return val{t, types.Typ[types.Bool], sBool} }
func intVal(t string) val  { return val{t, types.Typ[types.Int], sInt} }

func (e *Env) eval(c *CExpr) val {
	vc := e.vc
	switch c.Op {
	case "int":
		n, err := strconv.ParseInt(c.Name, 0, 64)
		if err != nil {
			u, err2 := strconv.ParseUint(c.Name, 0, 64)
			if err2 != nil {
				// beyond 64 bits: mathematical integer literal (decimal only)
				for _, ch := range c.Name {
					if ch < '0' || ch > '9' {
						e.fail("bad int %s", c.Name)
					}
				}
				return intVal(c.Name)
			}
			return intVal(uintLit(u))
		}
		return intVal(intLit(n))
	case "str":
		return val{vc.strLit(c.Name), types.Typ[types.String], sStr}
	case "bool":
		return boolVal(c.Name)
	case "nil":
		return val{"nil", nil, "nil"}
	case "ident":
		return e.ident(c.Name)
	case "old":
		n := e.cloneWith(e.old)
		n.old = e.old
		// inside old(), a parameter name denotes the value the function was entered with (also where the body reassigns it)
		n.paramsAtEntry = true
		return n.eval(c.Args[0])
	case "sel":
		return e.selector(c)
	case "index":
		return e.index(c)
	case "typeassert":
		v := e.eval(c.Args[0])
		t := e.resolveType(c.Type)
		if v.srt != sAny {
			e.fail("type assertion on non-interface %s", c.String())
		}
		return val{vc.unbox(vc.sortOf(t), app("a_val", v.t)), t, vc.sortOf(t)}
	case "unop":
		a := e.eval(c.Args[0])
		if c.Name == "!" {
			return boolVal(not(a.t))
		}
		return val{app("-", a.t), a.typ, a.srt}
	case "binop":
		return e.binop(c)
	case "forall", "exists":
		n := e.cloneWith(e.cur)
		var decls []string
		var guards []string
		for _, bv := range c.Vars {
			t, srt := e.resolveSpecType(bv.Type)
			name := quote("q$" + bv.Name)
			decls = append(decls, "("+name+" "+srt+")")
			n.names[bv.Name] = val{name, t, srt}
			_ = guards
		}
		body := n.evalBool(c.Args[0])
		if len(c.Trigs) > 0 {
			var ts []string
			for _, te := range c.Trigs {
				ts = append(ts, n.eval(te).t)
			}
			body = "(! " + body + " :pattern (" + strings.Join(ts, " ") + "))"
		}
		return boolVal("(" + c.Op + " (" + strings.Join(decls, " ") + ") " + body + ")")
	case "call":
		return e.callExpr(c)
	}
	e.fail("cannot evaluate %s", c.String())
	return val{}
}

// autoLoad: a struct-valued field denotes its address in contracts; where the struct value is wanted, load it.
func (e *Env) autoLoad(v val, want string) val {
	if v.srt == sInt && v.typ != nil && want != sInt {
		if p, ok := v.typ.Underlying().(*types.Pointer); ok {
			if _, isStruct := p.Elem().Underlying().(*types.Struct); isStruct && e.vc.sortOf(p.Elem()) == want {
				return val{e.vc.loadStruct(e.cur, p.Elem(), v.t), p.Elem(), want}
			}
		}
	}
	return v
}

func (e *Env) coerceTo(v val, srt string) val {
	v = e.autoLoad(v, srt)
	if v.srt == "nil" {
		return val{e.vc.zeroOfSort(srt), v.typ, srt}
	}
	if v.srt != srt {
		e.fail("sort mismatch: %s where %s expected", v.srt, srt)
	}
	return v
}

func (e *Env) coerceNil(a, b val) (val, val) {
	z := func(o val) val {
		switch o.srt {
		case sSlice:
			return val{"nil_slice", o.typ, sSlice}
		case sAny:
			return val{"any_nil", o.typ, sAny}
		}
		return val{"0", o.typ, sInt}
	}
	if a.srt == "nil" && b.srt != "nil" {
		a = z(b)
	}
	if b.srt == "nil" && a.srt != "nil" {
		b = z(a)
	}
	if a.srt == "nil" && b.srt == "nil" {
		a, b = val{"0", nil, sInt}, val{"0", nil, sInt}
	}
	return a, b
}

func (e *Env) binop(c *CExpr) val {
	switch c.Name {
	case "&&":
		return boolVal(and(e.evalBool(c.Args[0]), e.evalBool(c.Args[1])))
	case "||":
		return boolVal(or(e.evalBool(c.Args[0]), e.evalBool(c.Args[1])))
	case "==>":
		return boolVal(implies(e.evalBool(c.Args[0]), e.evalBool(c.Args[1])))
	case "<==>":
		return boolVal(eq(e.evalBool(c.Args[0]), e.evalBool(c.Args[1])))
	}
	a, b := e.eval(c.Args[0]), e.eval(c.Args[1])
	a, b = e.coerceNil(a, b)
	if a.srt != b.srt {
		e.fail("sort mismatch %s vs %s in %s", a.srt, b.srt, c.String())
	}
	switch c.Name {
	case "==", "!=":
		var t string
		switch {
		case a.srt == sSlice && (a.t == "nil_slice" || b.t == "nil_slice"):
			o := a
			if a.t == "nil_slice" {
				o = b
			}
			t = and(eq(app("s_arr", o.t), "0"), eq(app("s_len", o.t), "0"))
		case a.srt == sF64 || a.srt == sF32:
			t = app("fp.eq", a.t, b.t)
		default:
			if es, ok := seqElem(a.srt); ok {
				t = e.vc.sq("seq_eq", es, a.t, b.t)
			} else {
				t = eq(a.t, b.t)
			}
		}
		if c.Name == "!=" {
			t = not(t)
		}
		return boolVal(t)
	case "<", "<=", ">", ">=":
		switch a.srt {
		case sInt:
			return boolVal(app(c.Name, a.t, b.t))
		case sStr:
			switch c.Name {
			case "<":
				return boolVal(app("str_lt", a.t, b.t))
			case "<=":
				return boolVal(or(app("str_lt", a.t, b.t), eq(a.t, b.t)))
			case ">":
				return boolVal(app("str_lt", b.t, a.t))
			default:
				return boolVal(or(app("str_lt", b.t, a.t), eq(a.t, b.t)))
			}
		case sF64, sF32:
			fop := map[string]string{"<": "fp.lt", "<=": "fp.leq", ">": "fp.gt", ">=": "fp.geq"}[c.Name]
			return boolVal(app(fop, a.t, b.t))
		}
	case "++":
		if es, ok := seqElem(a.srt); ok {
			return val{e.vc.sq("seq_app", es, a.t, b.t), a.typ, a.srt}
		}
	case "+", "-", "*":
		if a.srt == sInt {
			return val{app(c.Name, a.t, b.t), a.typ, sInt}
		}
		if a.srt == sStr && c.Name == "+" {
			return val{app("str_cat", a.t, b.t), a.typ, sStr}
		}
	case "/":
		return val{app("div", a.t, b.t), a.typ, sInt}
	case "%":
		return val{app("mod", a.t, b.t), a.typ, sInt}
	}
	e.fail("unsupported operator %s on %s", c.Name, a.srt)
	return val{}
}

// ident resolution
func (e *Env) ident(name string) val {
	vc := e.vc
	if v, ok := e.names[name]; ok {
		return v
	}
	if f, ok := e.lazy[name]; ok {
		return f(e)
	}
	if e.own {
		if v, ok := e.x.localByName(e, name); ok {
			return v
		}
	}
	if g, ok := e.x.g.cs.Ghosts[name]; ok {
		_, srt := e.resolveSpecType(g.Type)
		comp := quote("ghost$" + name)
		vc.regComp(comp, srt)
		t, _ := e.resolveSpecType(g.Type)
		return val{vc.get(e.cur, comp), t, srt}
	}
	// package scope
	if e.pkg != nil {
		if obj := e.pkg.Scope().Lookup(name); obj != nil {
			return e.objVal(obj)
		}
	}
	e.fail("unknown identifier %q", name)
	return val{}
}

func (e *Env) objVal(obj types.Object) val {
	vc := e.vc
	switch o := obj.(type) {
	case *types.Const:
		return e.constVal(o.Val(), o.Type())
	case *types.Var:
		if sp := e.x.g.spkgs[o.Pkg().Path()]; sp != nil {
			if gl, ok := sp.Members[o.Name()].(*ssa.Global); ok && e.x.g.sentinels[gl] {
				return val{e.x.sentinelTerm(gl), o.Type(), sAny}
			}
		}
		comp := vc.globalComp(o.Pkg().Path(), o.Name(), o.Type())
		gv := vc.get(e.cur, comp)
		// a package-level map/slice is not owned by any monitor (same discipline assumption as for loads in code)
		e.x.assumeUnowned(e.cur, gv, o.Type())
		return val{gv, o.Type(), vc.sortOf(o.Type())}
	case *types.Func:
		if f := e.x.g.prog.FuncValue(o); f != nil {
			return val{e.x.funcRef(f), o.Type(), sInt}
		}
	}
	e.fail("cannot use %s in a contract", obj.Name())
	return val{}
}

func (e *Env) constVal(cv constant.Value, t types.Type) val {
	vc := e.vc
	switch cv.Kind() {
	case constant.Bool:
		if constant.BoolVal(cv) {
			return boolVal("true")
		}
		return boolVal("false")
	case constant.String:
		return val{vc.strLit(constant.StringVal(cv)), t, sStr}
	case constant.Int:
		if i, ok := constant.Int64Val(cv); ok {
			return val{intLit(i), t, sInt}
		}
		return val{cv.ExactString(), t, sInt}
	}
	e.fail("unsupported constant kind")
	return val{}
}

// localByName resolves a source-level local of the verified function.
func (x *Exec) localByName(e *Env, name string) (val, bool) {
	vc := x.vc
	fn := x.fn
	if name == "self" && x.selfRef != "" {
		return val{x.selfRef, fn.Signature, sInt}, true
	}
	for _, p := range fn.Params {
		if p.Name() == name {
			// a parameter that is reassigned in the body denotes, at a program point, its latest dominating value
			if (e.atBlock != nil || e.atHeader != nil) && !e.paramsAtEntry {
				if v, ok := x.reassigned(e, name); ok {
					return v, true
				}
			}
			return val{x.value(p), p.Type(), vc.sortOf(p.Type())}, true
		}
	}
	for _, fv := range fn.FreeVars {
		if fv.Name() == name {
			// captured variable: pointer to its cell
			et := fv.Type().Underlying().(*types.Pointer).Elem()
			if _, isStruct := et.Underlying().(*types.Struct); isStruct {
				return val{x.value(fv), fv.Type(), sInt}, true // captured struct variable: denotes its address
			}
			lv := x.lvalueForRead(fv)
			if lv == nil {
				return val{}, false
			}
			return val{vc.load(e.cur, lv), et, vc.sortOf(et)}, true
		}
	}
	if e.atHeader != nil {
		if name == "$i" {
			for _, in := range e.atHeader.Instrs {
				if phi, ok := in.(*ssa.Phi); ok && phi.Comment == "rangeindex" {
					return intVal(app("+", x.value(phi), "1")), true
				}
			}
		}
		if name == "$range" {
			if rv := x.loopRangeSlice(e.atHeader); rv != nil {
				return val{x.value(rv), rv.Type(), vc.sortOf(rv.Type())}, true
			}
			if it := x.loopIter(e.atHeader); it != nil && it.m != "" {
				return val{it.m, it.mt, sInt}, true
			}
		}
		if name == "$visited" {
			if it := x.loopIter(e.atHeader); it != nil {
				ks := vc.sortOf(it.mt.Key())
				return val{sel(vc.get(e.cur, it.visComp), it.id), nil, "(Array " + ks + " Bool)"}, true
			}
		}
		for _, in := range e.atHeader.Instrs {
			if phi, ok := in.(*ssa.Phi); ok {
				if phi.Comment == name {
					return val{x.value(phi), phi.Type(), vc.sortOf(phi.Type())}, true
				}
			} else {
				break
			}
		}
	}
	// $i<k>: number of completed iterations of range loop k (usable inside nested loops)
	if strings.HasPrefix(name, "$i") && len(name) > 2 {
		var k int
		if _, err := fmt.Sscanf(name[2:], "%d", &k); err == nil {
			for h, li := range x.loops {
				if li.ord != k {
					continue
				}
				for _, in := range h.Instrs {
					if phi, ok := in.(*ssa.Phi); ok && phi.Comment == "rangeindex" {
						return intVal(app("+", x.value(phi), "1")), true
					}
				}
			}
		}
	}
	// named results and address-taken locals: Alloc with Comment == name
	var found *ssa.Alloc
	for _, b := range fn.Blocks {
		for _, in := range b.Instrs {
			if a, ok := in.(*ssa.Alloc); ok && a.Comment == name {
				if found != nil && found != a {
					// ambiguous (shadowing): keep the first
					continue
				}
				found = a
			}
		}
	}
	if found != nil {
		if _, defined := x.vals[found]; defined {
			et := found.Type().Underlying().(*types.Pointer).Elem()
			if _, isStruct := et.Underlying().(*types.Struct); isStruct {
				return val{x.vals[found], found.Type(), sInt}, true // struct locals denote their address
			}
			if _, isArr := et.Underlying().(*types.Array); !isArr {
				return val{sel(vc.get(e.cur, vc.cellHeap(et)), x.vals[found]), et, vc.sortOf(et)}, true
			}
		}
	}
	// value locals: DebugRef to an ident with that name whose value is already defined; take the unique one
	var cands []ssa.Value
	for _, b := range fn.Blocks {
		for _, in := range b.Instrs {
			if d, ok := in.(*ssa.DebugRef); ok && !d.IsAddr {
				if id, ok := d.Expr.(interface{ String() string }); ok {
					_ = id
				}
				if ident, ok := identName(d); ok && ident == name && isLocalObj(d) {
					if _, defined := x.vals[d.X]; defined {
						dup := false
						for _, c := range cands {
							if c == d.X {
								dup = true
							}
						}
						if !dup {
							cands = append(cands, d.X)
						}
					}
				}
			}
		}
	}
	if len(cands) == 1 {
		return val{x.vals[cands[0]], cands[0].Type(), vc.sortOf(cands[0].Type())}, true
	}
	if len(cands) > 1 {
		// several definitions (the variable is reassigned): the latest one that dominates the current point
		at := e.atBlock
		if at == nil {
			at = e.atHeader
		}
		if at != nil {
			var best ssa.Value
			for _, c := range cands {
				in, ok := c.(ssa.Instruction)
				if !ok {
					continue
				}
				cb := in.Block()
				if cb == nil || !(cb == at || cb.Dominates(at)) {
					continue
				}
				if best == nil {
					best = c
					continue
				}
				bb := best.(ssa.Instruction).Block()
				if bb == cb {
					// later instruction in the same block wins
					for _, i2 := range cb.Instrs {
						if i2 == best.(ssa.Instruction) {
							best = c
							break
						}
						if i2 == in {
							break
						}
					}
				} else if bb.Dominates(cb) {
					best = c
				}
			}
			if best != nil {
				return val{x.vals[best], best.Type(), vc.sortOf(best.Type())}, true
			}
			// no definition reaches this point (e.g. a postcondition evaluated at an early return): the local has no
			// value here; an arbitrary one makes the clause mean "for whatever value" on this path
			t := cands[0].Type()
			return val{vc.fresh("undef_"+sanitize(name), vc.sortOf(t)), t, vc.sortOf(t)}, true
		}
		e.fail("local %q is ambiguous at this point (%d SSA values)", name, len(cands))
	}
	return val{}, false
}

func (x *Exec) lvalueForRead(p ssa.Value) *LValue {
	if lv, ok := x.addrs[p]; ok {
		return lv
	}
	pt, ok := p.Type().Underlying().(*types.Pointer)
	if !ok {
		return nil
	}
	et := pt.Elem()
	switch et.Underlying().(type) {
	case *types.Struct:
		return &LValue{kind: "structref", base: x.value(p), typ: et}
	case *types.Array:
		return nil
	}
	return &LValue{kind: "cell", base: x.value(p), typ: et}
}

// reassigned: the latest value assigned to source variable name that dominates the current point (phi at a loop
// header, or a later definition), if the variable is assigned anywhere in the body.
func (x *Exec) reassigned(e *Env, name string) (val, bool) {
	vc := x.vc
	at := e.atBlock
	if at == nil {
		at = e.atHeader
	}
	// the parameter's own object: a different variable of the same name (shadowing, e.g. a loop variable) is not it
	var pobj types.Object
	var ptyp types.Type
	for _, p := range x.fn.Params {
		if p.Name() == name {
			pobj, ptyp = p.Object(), p.Type()
		}
	}
	var best ssa.Value
	consider := func(v ssa.Value, in ssa.Instruction) {
		if _, defined := x.vals[v]; !defined {
			return
		}
		cb := in.Block()
		if cb == nil || !(cb == at || cb.Dominates(at)) {
			return
		}
		if best == nil {
			best = v
			return
		}
		bb := best.(ssa.Instruction).Block()
		if bb == cb {
			for _, i2 := range cb.Instrs {
				if i2 == best.(ssa.Instruction) {
					best = v
					return
				}
				if i2 == in {
					return
				}
			}
		} else if bb.Dominates(cb) {
			best = v
		}
	}
	for _, b := range x.fn.Blocks {
		for _, in := range b.Instrs {
			switch t := in.(type) {
			case *ssa.Phi:
				if t.Comment == name && (ptyp == nil || types.Identical(t.Type(), ptyp)) {
					consider(t, t)
				}
			case *ssa.DebugRef:
				if id, ok := identName(t); ok && id == name && !t.IsAddr && isLocalObj(t) && (pobj == nil || t.Object() == pobj) {
					if vi, ok := t.X.(ssa.Instruction); ok {
						consider(t.X, vi)
					}
				}
			}
		}
	}
	if best == nil {
		return val{}, false
	}
	return val{x.vals[best], best.Type(), vc.sortOf(best.Type())}, true
}

// loopIter finds the map iterator advanced in the loop with this header.
func (x *Exec) loopIter(h *ssa.BasicBlock) *iterInfo {
	li := x.loops[h]
	if li == nil {
		return nil
	}
	for b := range li.blocks {
		for _, in := range b.Instrs {
			if n, ok := in.(*ssa.Next); ok {
				if it := x.iters[n.Iter]; it != nil && it.mt != nil {
					return it
				}
			}
		}
	}
	return nil
}

func (e *Env) selector(c *CExpr) val {
	vc := e.vc
	// package-qualified name?
	if c.Args[0].Op == "ident" {
		if _, shadow := e.names[c.Args[0].Name]; !shadow {
			if p := e.x.g.importedPkg(e.pkg, c.Args[0].Name); p != nil {
				if _, isLocal := e.x.localByNameQuiet(e, c.Args[0].Name); !isLocal {
					obj := p.Scope().Lookup(c.Name)
					if obj == nil {
						e.fail("%s.%s not found", c.Args[0].Name, c.Name)
					}
					return e.objVal(obj)
				}
			}
		}
	}
	b := e.eval(c.Args[0])
	if b.typ == nil {
		e.fail("selector on untyped value %s", c.String())
	}
	t := b.typ
	isPtr := false
	if p, ok := t.Underlying().(*types.Pointer); ok {
		t = p.Elem()
		isPtr = true
	}
	st, ok := t.Underlying().(*types.Struct)
	if !ok {
		e.fail("selector %s on non-struct %s", c.Name, t)
	}
	// find the field (direct, then promoted through embedded fields)
	path := findField(st, c.Name)
	if path == nil {
		e.fail("no field %s in %s", c.Name, t)
	}
	cur := b
	curT := t
	curIsRef := isPtr
	for _, i := range path {
		s := curT.Underlying().(*types.Struct)
		ft := s.Field(i).Type()
		if curIsRef {
			if _, isStruct := ft.Underlying().(*types.Struct); isStruct {
				cur = val{vc.subRef(curT, i, cur.t), types.NewPointer(ft), sInt}
				curT = ft
				curIsRef = true
				continue
			}
			cur = val{sel(vc.get(e.cur, vc.fieldHeap(curT, i)), cur.t), ft, vc.sortOf(ft)}
			if pp, ok := ft.Underlying().(*types.Pointer); ok {
				curT = pp.Elem()
				curIsRef = true
			} else {
				curT = ft
				curIsRef = false
			}
			continue
		}
		cur = val{app(vc.structSel(curT, i), cur.t), ft, vc.sortOf(ft)}
		if pp, ok := ft.Underlying().(*types.Pointer); ok {
			curT = pp.Elem()
			curIsRef = true
		} else {
			curT = ft
			curIsRef = false
		}
	}
	return cur
}

func (x *Exec) localByNameQuiet(e *Env, name string) (v val, ok bool) {
	defer func() {
		if r := recover(); r != nil {
			ok = false
		}
	}()
	if !e.own {
		return val{}, false
	}
	return x.localByName(e, name)
}

func findField(st *types.Struct, name string) []int {
	for i := 0; i < st.NumFields(); i++ {
		if st.Field(i).Name() == name {
			return []int{i}
		}
	}
	for i := 0; i < st.NumFields(); i++ {
		f := st.Field(i)
		if !f.Embedded() {
			continue
		}
		ft := f.Type()
		if p, ok := ft.Underlying().(*types.Pointer); ok {
			ft = p.Elem()
		}
		if s2, ok := ft.Underlying().(*types.Struct); ok {
			if sub := findField(s2, name); sub != nil {
				return append([]int{i}, sub...)
			}
		}
	}
	return nil
}

func (e *Env) index(c *CExpr) val {
	vc := e.vc
	b := e.eval(c.Args[0])
	i := e.eval(c.Args[1])
	if b.typ != nil {
		switch u := b.typ.Underlying().(type) {
		case *types.Slice:
			h := vc.arrHeap(u.Elem())
			es := vc.sortOf(u.Elem())
			return val{vc.sq("seq_idx", es, vc.view(es, vc.get(e.cur, h), b.t), i.t), u.Elem(), es}
		case *types.Map:
			i = e.coerceTo(i, vc.sortOf(u.Key()))
			present := and(not(eq(b.t, "0")), sel(sel(vc.get(e.cur, vc.mapDom(u)), b.t), i.t))
			return val{ite(present, sel(sel(vc.get(e.cur, vc.mapVal(u)), b.t), i.t), vc.zero(u.Elem())), u.Elem(), vc.sortOf(u.Elem())}
		case *types.Array:
			return val{sel(b.t, i.t), u.Elem(), vc.sortOf(u.Elem())}
		}
	}
	if es, ok := seqElem(b.srt); ok {
		return val{vc.sq("seq_idx", es, b.t, i.t), b.typ, es}
	}
	if strings.HasPrefix(b.srt, "(Array ") {
		// ghost set / map
		rs := arrayRange(b.srt)
		var rt types.Type
		if rs == sBool {
			rt = types.Typ[types.Bool]
		}
		return val{sel(b.t, i.t), rt, rs}
	}
	e.fail("cannot index %s", c.String())
	return val{}
}

// arrayRange returns the range sort of "(Array D R)".
func arrayRange(s string) string {
	inner := strings.TrimSuffix(strings.TrimPrefix(s, "(Array "), ")")
	// skip the domain sort (balanced)
	d := 0
	for i, ch := range inner {
		if ch == '(' {
			d++
		} else if ch == ')' {
			d--
		} else if ch == ' ' && d == 0 {
			return inner[i+1:]
		}
	}
	return inner
}
func arrayDomain(s string) string {
	inner := strings.TrimSuffix(strings.TrimPrefix(s, "(Array "), ")")
	d := 0
	for i, ch := range inner {
		if ch == '(' {
			d++
		} else if ch == ')' {
			d--
		} else if ch == ' ' && d == 0 {
			return inner[:i]
		}
	}
	return inner
}

// seqElem: element sort of a Seq sort name
func seqElem(srt string) (string, bool) {
	t := strings.Trim(srt, "|")
	if strings.HasPrefix(t, "Seq$") {
		return t[4:], true
	}
	return "", false
}

func (e *Env) callExpr(c *CExpr) val {
	vc := e.vc
	argn := func(n int) {
		if len(c.Args) != n {
			e.fail("%s expects %d arguments", c.Name, n)
		}
	}
	switch c.Name {
	case "len":
		argn(1)
		a := e.eval(c.Args[0])
		if es, ok := seqElem(a.srt); ok {
			return intVal(vc.sq("seq_len", es, a.t))
		}
		switch {
		case a.srt == sSlice:
			return intVal(app("s_len", a.t))
		case a.srt == sStr:
			return intVal(app("str_len", a.t))
		case a.typ != nil:
			if m, ok := a.typ.Underlying().(*types.Map); ok {
				return intVal(ite(eq(a.t, "0"), "0", vc.card(vc.sortOf(m.Key()), sel(vc.get(e.cur, vc.mapDom(m)), a.t))))
			}
		}
		if strings.HasPrefix(a.srt, "(Array ") && arrayRange(a.srt) == sBool {
			return intVal(vc.card(arrayDomain(a.srt), a.t))
		}
		e.fail("len of %s in %s", a.srt, c.String())
	case "view":
		argn(1)
		a := e.eval(c.Args[0])
		sl, ok := a.typ.Underlying().(*types.Slice)
		if !ok {
			e.fail("view of non-slice")
		}
		es := vc.sortOf(sl.Elem())
		return val{vc.view(es, vc.get(e.cur, vc.arrHeap(sl.Elem())), a.t), sl.Elem(), vc.seqSort(es)}
	case "unit":
		argn(1)
		a := e.eval(c.Args[0])
		return val{vc.sq("seq_unit", a.srt, a.t), a.typ, vc.seqSort(a.srt)}
	case "sub":
		argn(3)
		a, lo, hi := e.eval(c.Args[0]), e.eval(c.Args[1]), e.eval(c.Args[2])
		es, ok := seqElem(a.srt)
		if !ok {
			e.fail("sub of non-sequence")
		}
		return val{vc.sq("seq_slice", es, a.t, lo.t, app("-", hi.t, lo.t)), a.typ, a.srt}
	case "emptyseq":
		argn(1)
		if c.Args[0].Op != "str" {
			e.fail("emptyseq needs a type name string")
		}
		t := e.resolveType(c.Args[0].Name)
		es := vc.sortOf(t)
		vc.seqSort(es)
		return val{quote("seq_empty$" + es), t, vc.seqSort(es)}
	case "zero":
		argn(1)
		if c.Args[0].Op != "str" {
			e.fail("zero needs a type name string")
		}
		t := e.resolveType(c.Args[0].Name)
		return val{vc.zero(t), t, vc.sortOf(t)}
	case "typed":
		// typed(x, "T"): x is a whole allocated object of struct type T
		argn(2)
		a := e.eval(c.Args[0])
		if c.Args[1].Op != "str" {
			e.fail("typed needs a type name string")
		}
		t := e.resolveType(c.Args[1].Name)
		vc.regComp("RType", "(Array Int Int)")
		e.x.g.needClosure = true
		return boolVal(eq(sel(vc.get(e.cur, "RType"), a.t), vc.structTID(t)))
	case "frozen":
		argn(1)
		a := e.eval(c.Args[0])
		vc.regComp("Frozen", "(Array Int Bool)")
		return boolVal(sel(vc.get(e.cur, "Frozen"), app("s_arr", a.t)))
	case "spawns":
		argn(0)
		vc.regComp("Spawns", sInt)
		return intVal(vc.get(e.cur, "Spawns"))
	case "sends":
		// sends(ch): number of send attempts on ch made so far by this activation's thread (ghost)
		argn(1)
		a := e.eval(c.Args[0])
		vc.regComp("SendAttempts", "(Array Int Int)")
		return intVal(sel(vc.get(e.cur, "SendAttempts"), a.t))
	case "quo":
		// quo(a, b): Go's integer quotient (truncated toward zero), unwrapped
		argn(2)
		a, b := e.eval(c.Args[0]), e.eval(c.Args[1])
		q := ite(app(">=", a.t, "0"), ite(app(">", b.t, "0"), app("div", a.t, b.t), app("-", app("div", a.t, app("-", b.t)))),
			ite(app(">", b.t, "0"), app("-", app("div", app("-", a.t), b.t)), app("div", app("-", a.t), app("-", b.t))))
		return val{q, a.typ, sInt}
	case "hits":
		// hits("call f#k"): how many times this activation has executed that call site so far (ghost)
		argn(1)
		if c.Args[0].Op != "str" {
			e.fail("hits() takes a call-site name as a string literal")
		}
		site := c.Args[0].Name
		if vc.hitsUsed == nil {
			vc.hitsUsed = map[string]bool{}
		}
		vc.hitsUsed[site] = true
		vc.regComp("SiteHits", "(Array Int Int)")
		return intVal(sel(vc.get(e.cur, "SiteHits"), vc.siteID(site)))
	case "lastsent":
		// lastsent(ch): the value of the latest send statement on ch by this activation's thread (ghost; channels of
		// reference-like elements only)
		argn(1)
		a := e.eval(c.Args[0])
		ct, ok := a.typ.Underlying().(*types.Chan)
		if !ok {
			e.fail("lastsent of a non-channel")
		}
		comp, ok := vc.lastSentComp(ct.Elem())
		if !ok {
			e.fail("lastsent of a channel of structs or arrays")
		}
		return val{sel(vc.get(e.cur, comp), a.t), ct.Elem(), vc.sortOf(ct.Elem())}
	case "calls":
		argn(1)
		a := e.eval(c.Args[0])
		vc.regComp("Calls", "(Array Int Int)")
		return intVal(sel(vc.get(e.cur, "Calls"), a.t))
	case "first":
		// first(s): s[0] of a sequence
		argn(1)
		a := e.eval(c.Args[0])
		es, ok := seqElem(a.srt)
		if !ok {
			e.fail("first of non-sequence")
		}
		return val{vc.sq("seq_idx", es, a.t, "0"), a.typ, es}
	case "payload":
		// payload(x): the pointer held by interface value x (nil when x holds no pointer)
		argn(1)
		a := e.eval(c.Args[0])
		if a.srt != sAny {
			e.fail("payload of non-interface")
		}
		return val{app("a_val", a.t), nil, sInt}
	case "arr":
		argn(1)
		a := e.eval(c.Args[0])
		if a.srt != sSlice {
			e.fail("arr of non-slice")
		}
		return intVal(app("s_arr", a.t))
	case "cap":
		argn(1)
		a := e.eval(c.Args[0])
		return intVal(app("s_cap", a.t))
	case "has":
		argn(2)
		m := e.eval(c.Args[0])
		k := e.eval(c.Args[1])
		if m.typ != nil {
			if mt, ok := m.typ.Underlying().(*types.Map); ok {
				k = e.coerceTo(k, vc.sortOf(mt.Key()))
				return boolVal(and(not(eq(m.t, "0")), sel(sel(vc.get(e.cur, vc.mapDom(mt)), m.t), k.t)))
			}
		}
		return boolVal(sel(m.t, k.t))
	case "dom":
		argn(1)
		m := e.eval(c.Args[0])
		mt := m.typ.Underlying().(*types.Map)
		return val{sel(vc.get(e.cur, vc.mapDom(mt)), m.t), nil, "(Array " + vc.sortOf(mt.Key()) + " Bool)"}
	case "same":
		// same(a, b): identical values (for floats: the same bit pattern class, unlike ==)
		argn(2)
		a, b := e.eval(c.Args[0]), e.eval(c.Args[1])
		a, b = e.coerceNil(a, b)
		return boolVal(eq(a.t, b.t))
	case "boxas":
		// boxas(x, "T"): the interface value holding x as a value of type T (same representation sort)
		argn(2)
		a := e.eval(c.Args[0])
		if c.Args[1].Op != "str" {
			e.fail("boxas needs a type name string")
		}
		t := e.resolveType(c.Args[1].Name)
		if vc.sortOf(t) != a.srt {
			e.fail("boxas: sort mismatch %s vs %s", vc.sortOf(t), a.srt)
		}
		return val{app("mk_any", vc.typeID(t), vc.box(a.srt, a.t)), types.NewInterfaceType(nil, nil), sAny}
	case "strof":
		// strof(bytes): the string conversion of a byte slice
		argn(1)
		a := e.eval(c.Args[0])
		sl, ok := a.typ.Underlying().(*types.Slice)
		if !ok {
			e.fail("strof of non-slice")
		}
		vc.declFun("str_of_bytes", []string{vc.seqSort(sInt)}, sStr)
		return val{app("str_of_bytes", vc.view(sInt, vc.get(e.cur, vc.arrHeap(sl.Elem())), a.t)), types.Typ[types.String], sStr}
	case "vals":
		argn(1)
		m := e.eval(c.Args[0])
		mt := m.typ.Underlying().(*types.Map)
		return val{sel(vc.get(e.cur, vc.mapVal(mt)), m.t), nil, "(Array " + vc.sortOf(mt.Key()) + " " + vc.sortOf(mt.Elem()) + ")"}
	case "ite":
		argn(3)
		cnd := e.evalBool(c.Args[0])
		a, b := e.eval(c.Args[1]), e.eval(c.Args[2])
		a, b = e.coerceNil(a, b)
		return val{ite(cnd, a.t, b.t), a.typ, a.srt}
	case "fresh":
		argn(1)
		a := e.eval(c.Args[0])
		t := a.t
		if a.srt == sSlice {
			t = app("s_arr", a.t)
		}
		return boolVal(and(app(">=", t, vc.getNext(e.old)), app("<", t, vc.getNext(e.cur))))
	case "deref":
		// deref(p): the value a pointer to a scalar (e.g. a flag variable) points to
		argn(1)
		a := e.eval(c.Args[0])
		pt, ok := a.typ.Underlying().(*types.Pointer)
		if !ok {
			e.fail("deref of non-pointer")
		}
		if _, isStruct := pt.Elem().Underlying().(*types.Struct); isStruct {
			e.fail("deref of a struct pointer: use field selection")
		}
		return val{sel(vc.get(e.cur, vc.cellHeap(pt.Elem())), a.t), pt.Elem(), vc.sortOf(pt.Elem())}
	case "allocated":
		argn(1)
		a := e.eval(c.Args[0])
		if a.srt == sSlice {
			return boolVal(app("<", app("s_arr", a.t), vc.getNext(e.cur)))
		}
		return boolVal(app("<", app("root", a.t), vc.getNext(e.cur)))
	case "held", "wheld", "rheld":
		argn(1)
		a := e.eval(c.Args[0])
		vc.regComp("Held", "(Array Int Int)")
		h := sel(vc.get(e.cur, "Held"), a.t)
		switch c.Name {
		case "held":
			return boolVal(not(eq(h, "0")))
		case "wheld":
			return boolVal(eq(h, "2"))
		}
		return boolVal(eq(h, "1"))
	case "lockstate":
		argn(1)
		a := e.eval(c.Args[0])
		vc.regComp("Held", "(Array Int Int)")
		return intVal(sel(vc.get(e.cur, "Held"), a.t))
	case "closed":
		argn(1)
		a := e.eval(c.Args[0])
		vc.regComp("ChanClosed", "(Array Int Bool)")
		return boolVal(sel(vc.get(e.cur, "ChanClosed"), a.t))
	case "chancap":
		// buffer capacity of a channel: fixed when the channel is made, so a function of the channel
		argn(1)
		a := e.eval(c.Args[0])
		vc.declFun(quote("spec$chancap"), []string{sInt}, sInt)
		return intVal(app(quote("spec$chancap"), a.t))
	case "isa":
		argn(1)
		ta := c.Args[0]
		if ta.Op != "typeassert" {
			e.fail("isa expects x.(T)")
		}
		v := e.eval(ta.Args[0])
		t := e.resolveType(ta.Type)
		return boolVal(eq(app("a_typ", v.t), vc.typeID(t)))
	case "box":
		// box(x): the interface value holding x with its static type
		argn(1)
		a := e.eval(c.Args[0])
		if a.typ == nil {
			e.fail("box of untyped value")
		}
		return val{app("mk_any", vc.typeID(a.typ), vc.box(a.srt, a.t)), types.NewInterfaceType(nil, nil), sAny}
	case "unchanged":
		var parts []string
		for _, a := range c.Args {
			now := e.eval(a)
			o := e.cloneWith(e.old)
			o.old = e.old
			before := o.eval(a)
			parts = append(parts, eq(now.t, before.t))
		}
		return boolVal(and(parts...))
	case "empty":
		argn(0)
		e.fail("empty() needs a type")
	case "union1":
		// union1(set, k): set with k added
		argn(2)
		s, k := e.eval(c.Args[0]), e.eval(c.Args[1])
		return val{store(s.t, k.t, "true"), s.typ, s.srt}
	case "minus1":
		argn(2)
		s, k := e.eval(c.Args[0]), e.eval(c.Args[1])
		return val{store(s.t, k.t, "false"), s.typ, s.srt}
	case "upd":
		argn(3)
		s, k, v := e.eval(c.Args[0]), e.eval(c.Args[1]), e.eval(c.Args[2])
		if v.srt == "nil" {
			v.t = vc.zeroOfSort(arrayRange(s.srt))
		}
		if k.srt == "nil" {
			k.t = "0"
		}
		return val{store(s.t, k.t, v.t), s.typ, s.srt}
	case "wrap32u":
		argn(1)
		a := e.eval(c.Args[0])
		return intVal(app("wrap_u", a.t, pow2(32)))
	case "wrap64s":
		argn(1)
		a := e.eval(c.Args[0])
		return intVal(app("wrap_s", a.t, pow2(64)))
	case "heapsel":
		// heapsel("T.f", ref): raw access to a field heap for a bound ref variable
		argn(2)
		if c.Args[0].Op != "str" {
			e.fail("heapsel needs a string heap name")
		}
		comp := e.compByName(c.Args[0].Name)
		if comp == "" {
			e.fail("unknown heap %s", c.Args[0].Name)
		}
		r := e.eval(c.Args[1])
		srt := vc.reg().sorts[comp]
		return val{sel(vc.get(e.cur, comp), r.t), e.fieldTypeByName(c.Args[0].Name), arrayRange(srt)}
	}
	// predicates
	if pd := e.lookupPred(c.Name); pd != nil {
		if len(pd.Params) != len(c.Args) {
			e.fail("pred %s expects %d args", c.Name, len(pd.Params))
		}
		if e.predDepth > 8 {
			e.fail("pred recursion too deep: %s", c.Name)
		}
		n := e.cloneWith(e.cur)
		n.names = map[string]val{}
		n.own = false
		n.atHeader = nil
		n.predDepth = e.predDepth + 1
		if pd.Pkg != "" {
			if p := e.x.g.pkgByPath(pd.Pkg); p != nil {
				n.pkg = p
			}
		}
		for i, p := range pd.Params {
			a := e.eval(c.Args[i])
			pt, psrt := n.resolveSpecType(p.Type)
			if a.srt == "nil" {
				a = val{"0", pt, sInt}
				if psrt == sSlice {
					a.t = "nil_slice"
				} else if psrt == sAny {
					a.t = "any_nil"
				}
				a.srt = psrt
			}
			if a.srt != psrt {
				e.fail("pred %s arg %d: sort %s, expected %s", c.Name, i, a.srt, psrt)
			}
			if pt != nil {
				a.typ = pt
			}
			n.names[p.Name] = a
		}
		return n.eval(pd.Body)
	}
	// uninterpreted spec functions
	if sf := e.x.g.cs.Specs[c.Name]; sf != nil {
		if len(sf.Params) != len(c.Args) {
			e.fail("spec %s expects %d args", c.Name, len(sf.Params))
		}
		tenv := e
		if sf.Pkg != "" {
			if p := e.x.g.pkgByPath(sf.Pkg); p != nil {
				tenv = e.cloneWith(e.cur)
				tenv.pkg = p
			}
		}
		var as, sorts []string
		for i, a := range c.Args {
			v := e.eval(a)
			_, psrt := tenv.resolveSpecType(sf.Params[i])
			if v.srt == "nil" {
				v.t = vc.zeroOfSort(psrt)
				v.srt = psrt
			}
			v = e.autoLoad(v, psrt)
			if v.srt != psrt {
				e.fail("spec %s arg %d: sort %s, expected %s", c.Name, i, v.srt, psrt)
			}
			as = append(as, v.t)
			sorts = append(sorts, psrt)
		}
		rt, rs := tenv.resolveSpecType(sf.Ret)
		fname := quote("spec$" + c.Name)
		vc.declFun(fname, sorts, rs)
		if !vc.declared["axioms:"+c.Name] {
			// axioms may mention heaps (they are stated for the state of first use: the messages they speak about are
			// assumed immutable), so they live in the ordinary stream and are re-emitted after a rollback
			vc.declared["axioms:"+c.Name] = true
			for _, ax := range sf.Axioms {
				n := tenv.cloneWith(e.x.entry0)
				if e.x.entry0 == nil {
					n = tenv.cloneWith(e.cur)
				}
				n.names = map[string]val{}
				n.own = false
				n.old = n.cur
				t := n.evalBool(ax)
				vc.assert(t)
			}
		}
		return val{app(fname, as...), rt, rs}
	}
	// application of a (pure) function value: parameter or captured closure
	if fv, ok := e.names[c.Name]; ok && fv.typ != nil {
		if sig, ok := fv.typ.Underlying().(*types.Signature); ok && sig.Results().Len() == 1 {
			var as, sorts []string
			as = append(as, fv.t)
			sorts = append(sorts, sInt)
			for i, a := range c.Args {
				v := e.eval(a)
				ps := vc.sortOf(sig.Params().At(i).Type())
				v = e.coerceTo(v, ps)
				as = append(as, v.t)
				sorts = append(sorts, ps)
			}
			rt := sig.Results().At(0).Type()
			return val{app(capplyName(vc, sorts, vc.sortOf(rt)), as...), rt, vc.sortOf(rt)}
		}
	}
	e.fail("unknown function %s", c.Name)
	return val{}
}

func capplyName(vc *VC, sorts []string, ret string) string {
	name := quote("capply$" + strings.Join(sorts[1:], "$") + "$" + ret)
	vc.declFun(name, sorts, ret)
	return name
}

func (e *Env) lookupPred(name string) *PredDef {
	cs := e.x.g.cs
	if e.pkg != nil {
		if pd, ok := cs.Preds[e.pkg.Path()+"|"+name]; ok {
			return pd
		}
	}
	if pd, ok := cs.Preds["|"+name]; ok {
		return pd
	}
	return nil
}

// compByName: "T.f" field heap, "ghost:g", "global:pkg.v"
func (e *Env) compByName(name string) string {
	vc := e.vc
	switch {
	case strings.HasPrefix(name, "ghost:"):
		g := e.x.g.cs.Ghosts[name[6:]]
		if g == nil {
			return ""
		}
		_, srt := e.resolveSpecType(g.Type)
		comp := quote("ghost$" + g.Name)
		vc.regComp(comp, srt)
		return comp
	case strings.HasPrefix(name, "global:"):
		q := name[7:]
		k := strings.LastIndex(q, ".")
		var p *types.Package
		n := q
		if k >= 0 {
			p = e.x.g.importedPkg(e.pkg, q[:k])
			n = q[k+1:]
		} else {
			p = e.pkg
		}
		if p == nil {
			return ""
		}
		obj := p.Scope().Lookup(n)
		if obj == nil {
			return ""
		}
		return vc.globalComp(p.Path(), n, obj.Type())
	case strings.HasPrefix(name, "[]"):
		// heap([]T): the contents of every backing array of element type T
		t := e.resolveType(name[2:])
		if t == nil {
			return ""
		}
		return vc.arrHeap(t)
	case name == "Held":
		vc.regComp("Held", "(Array Int Int)")
		return "Held"
	case name == "ChanClosed":
		vc.regComp("ChanClosed", "(Array Int Bool)")
		return "ChanClosed"
	}
	k := strings.LastIndex(name, ".")
	if k < 0 {
		return ""
	}
	t := e.resolveType(name[:k])
	st, ok := t.Underlying().(*types.Struct)
	if !ok {
		return ""
	}
	for i := 0; i < st.NumFields(); i++ {
		if st.Field(i).Name() == name[k+1:] {
			return vc.fieldHeap(t, i)
		}
	}
	return ""
}

// compsByName: like compByName, but a struct-valued field stands for the heaps of all fields of the embedded struct.
func (e *Env) compsByName(name string) []string {
	if ft := e.fieldTypeByName(name); ft != nil && !strings.Contains(name, ":") {
		if _, isStruct := ft.Underlying().(*types.Struct); isStruct {
			var out []string
			var walk func(t types.Type)
			walk = func(t types.Type) {
				st := t.Underlying().(*types.Struct)
				for i := 0; i < st.NumFields(); i++ {
					if _, inner := st.Field(i).Type().Underlying().(*types.Struct); inner {
						walk(st.Field(i).Type())
						continue
					}
					out = append(out, e.vc.fieldHeap(t, i))
				}
			}
			walk(ft)
			return out
		}
	}
	if strings.HasPrefix(name, "map ") {
		// heap(map T): the contents of every map of the (named) map type T
		if t := e.resolveType(strings.TrimSpace(name[4:])); t != nil {
			if mt, ok := t.Underlying().(*types.Map); ok {
				return []string{e.vc.mapDom(mt), e.vc.mapVal(mt)}
			}
		}
		return nil
	}
	if c := e.compByName(name); c != "" {
		return []string{c}
	}
	return nil
}

func (e *Env) fieldTypeByName(name string) types.Type {
	k := strings.LastIndex(name, ".")
	if k < 0 {
		return nil
	}
	t := e.resolveType(name[:k])
	st, ok := t.Underlying().(*types.Struct)
	if !ok {
		return nil
	}
	for i := 0; i < st.NumFields(); i++ {
		if st.Field(i).Name() == name[k+1:] {
			return st.Field(i).Type()
		}
	}
	return nil
}

type compRef struct{ comp, ref string }

// modTargets: every (component, ref) a modifies item with an lvalue expression names. A struct-valued field
// stands for all fields of the embedded struct (recursively).
func (e *Env) modTargets(m *ModItem) []compRef {
	vc := e.vc
	if !m.Elems && !m.MapOf && m.Captured == "" && m.Expr != nil && m.Expr.Op == "sel" {
		b := e.eval(m.Expr.Args[0])
		if b.typ != nil {
			if p, ok := b.typ.Underlying().(*types.Pointer); ok {
				if st, ok := p.Elem().Underlying().(*types.Struct); ok {
					if path := findField(st, m.Expr.Name); len(path) == 1 {
						ft := st.Field(path[0]).Type()
						if _, isStruct := ft.Underlying().(*types.Struct); isStruct {
							var out []compRef
							var rec func(t types.Type, ref string)
							rec = func(t types.Type, ref string) {
								s := t.Underlying().(*types.Struct)
								for i := 0; i < s.NumFields(); i++ {
									if _, ok := s.Field(i).Type().Underlying().(*types.Struct); ok {
										rec(s.Field(i).Type(), vc.subRef(t, i, ref))
									} else {
										out = append(out, compRef{vc.fieldHeap(t, i), ref})
									}
								}
							}
							rec(ft, vc.subRef(p.Elem(), path[0], b.t))
							return out
						}
					}
				}
			}
		}
	}
	c, r := e.modTarget(m)
	out := []compRef{{c, r}}
	if c == "SendAttempts" {
		if ct, ok := e.eval(m.Expr.Args[0]).typ.Underlying().(*types.Chan); ok {
			if comp, ok := vc.lastSentComp(ct.Elem()); ok {
				out = append(out, compRef{comp, r})
			}
		}
	}
	if m.MapOf {
		out = append(out, compRef{e.modTarget2(m), r})
	}
	return out
}

// modTarget: component and ref for a modifies item with an lvalue expression.
func (e *Env) modTarget(m *ModItem) (comp, ref string) {
	vc := e.vc
	switch {
	case m.Captured != "":
		if f, ok := e.capturedCell[m.Captured]; ok {
			return f()
		}
		e.fail("modifies captured %s: not a captured variable here", m.Captured)
	case m.Elems:
		s := e.eval(m.Expr)
		sl, ok := s.typ.Underlying().(*types.Slice)
		if !ok {
			e.fail("elems() of non-slice")
		}
		return vc.arrHeap(sl.Elem()), app("s_arr", s.t)
	case m.MapOf:
		mv := e.eval(m.Expr)
		mt, ok := mv.typ.Underlying().(*types.Map)
		if !ok {
			e.fail("mapof() of non-map")
		}
		return vc.mapDom(mt), mv.t
	}
	c := m.Expr
	switch c.Op {
	case "sel":
		b := e.eval(c.Args[0])
		t := b.typ
		if p, ok := t.Underlying().(*types.Pointer); ok {
			t = p.Elem()
		} else {
			e.fail("modifies %s: base is not a pointer", m.Text)
		}
		st := t.Underlying().(*types.Struct)
		path := findField(st, c.Name)
		if len(path) != 1 {
			e.fail("modifies %s: field not found (or promoted)", m.Text)
		}
		return vc.fieldHeap(t, path[0]), b.t
	case "call":
		switch c.Name {
		case "held":
			a := e.eval(c.Args[0])
			vc.regComp("Held", "(Array Int Int)")
			return "Held", a.t
		case "closed":
			a := e.eval(c.Args[0])
			vc.regComp("ChanClosed", "(Array Int Bool)")
			return "ChanClosed", a.t
		case "sends":
			// the send history of a channel (count and latest value)
			a := e.eval(c.Args[0])
			vc.regComp("SendAttempts", "(Array Int Int)")
			return "SendAttempts", a.t
		case "cell":
			a := e.eval(c.Args[0])
			pt, ok := a.typ.Underlying().(*types.Pointer)
			if !ok {
				e.fail("cell() of non-pointer")
			}
			return vc.cellHeap(pt.Elem()), a.t
		}
	}
	e.fail("unsupported modifies item %s", m.Text)
	return "", ""
}

func (e *Env) modTarget2(m *ModItem) string {
	mv := e.eval(m.Expr)
	mt := mv.typ.Underlying().(*types.Map)
	return e.vc.mapVal(mt)
}

// ---------------------------------------------------------------- types in contracts

func (e *Env) resolveSpecType(s string) (types.Type, string) {
	s = strings.TrimSpace(s)
	if e.x.g.cs.Sorts[s] {
		srt := quote("U$" + s)
		if !e.vc.gdecl["sort:"+srt] {
			e.vc.gdecl["sort:"+srt] = true
			e.vc.global(func() { e.vc.raw("(declare-sort " + srt + " 0)") })
		}
		return nil, srt
	}
	switch {
	case strings.HasPrefix(s, "seq["):
		t, es := e.resolveSpecType(s[4 : len(s)-1])
		return t, e.vc.seqSort(es)
	case s == "ref":
		return nil, sInt
	case s == "time":
		return nil, sInt
	case strings.HasPrefix(s, "set["):
		_, ks := e.resolveSpecType(s[4 : len(s)-1])
		return nil, "(Array " + ks + " Bool)"
	case strings.HasPrefix(s, "gmap["):
		// gmap[K]V ghost map
		d := 0
		for i := 4; i < len(s); i++ {
			if s[i] == '[' {
				d++
			} else if s[i] == ']' {
				d--
				if d == 0 {
					_, ks := e.resolveSpecType(s[5:i])
					_, vs := e.resolveSpecType(s[i+1:])
					return nil, "(Array " + ks + " " + vs + ")"
				}
			}
		}
	}
	t := e.resolveType(s)
	return t, e.vc.sortOf(t)
}

func (e *Env) resolveType(s string) types.Type {
	s = strings.TrimSpace(s)
	switch {
	case strings.HasPrefix(s, "*"):
		return types.NewPointer(e.resolveType(s[1:]))
	case strings.HasPrefix(s, "[]"):
		return types.NewSlice(e.resolveType(s[2:]))
	case strings.HasPrefix(s, "map["):
		d := 0
		for i := 3; i < len(s); i++ {
			if s[i] == '[' {
				d++
			} else if s[i] == ']' {
				d--
				if d == 0 {
					return types.NewMap(e.resolveType(s[4:i]), e.resolveType(s[i+1:]))
				}
			}
		}
	case s == "interface{}" || s == "any":
		return types.NewInterfaceType(nil, nil)
	case s == "error":
		return types.Universe.Lookup("error").Type()
	}
	if b := types.Universe.Lookup(s); b != nil {
		if tn, ok := b.(*types.TypeName); ok {
			return tn.Type()
		}
	}
	if k := strings.LastIndex(s, "."); k >= 0 {
		if strings.Contains(s[:k], "/") {
			if fp := e.x.g.tpkgs[s[:k]]; fp != nil {
				if obj := fp.Scope().Lookup(s[k+1:]); obj != nil {
					return obj.Type()
				}
			}
			e.fail("unknown type %s", s)
		}
		p := e.x.g.importedPkg(e.pkg, s[:k])
		if p == nil {
			e.fail("unknown package %q in type %s", s[:k], s)
		}
		obj := p.Scope().Lookup(s[k+1:])
		if obj == nil {
			e.fail("unknown type %s", s)
		}
		return obj.Type()
	}
	if e.pkg != nil {
		if obj := e.pkg.Scope().Lookup(s); obj != nil {
			return obj.Type()
		}
	}
	e.fail("unknown type %q", s)
	return nil
}

func identName(d *ssa.DebugRef) (string, bool) {
	type named interface{ String() string }
	switch ex := d.Expr.(type) {
	case interface{ End() interface{} }:
		_ = ex
	}
	return debugIdent(d)
}

func isLocalObj(d *ssa.DebugRef) bool {
	obj := d.Object()
	v, ok := obj.(*types.Var)
	if !ok || v.Pkg() == nil {
		return false
	}
	return v.Parent() != v.Pkg().Scope() && !v.IsField()
}

// loopRangeSlice: the slice a `for ... range s` loop with this header iterates over.
func (x *Exec) loopRangeSlice(h *ssa.BasicBlock) ssa.Value {
	li := x.loops[h]
	if li == nil {
		return nil
	}
	var idxPhi *ssa.Phi
	for _, in := range h.Instrs {
		if phi, ok := in.(*ssa.Phi); ok && phi.Comment == "rangeindex" {
			idxPhi = phi
		}
	}
	if idxPhi == nil {
		return nil
	}
	for b := range li.blocks {
		for _, in := range b.Instrs {
			if ia, ok := in.(*ssa.IndexAddr); ok {
				if bo, ok := ia.Index.(*ssa.BinOp); ok && bo.X == idxPhi {
					return ia.X
				}
			}
		}
	}
	// loops that ignore the element: the length compared against in the header
	for _, in := range h.Instrs {
		if bo, ok := in.(*ssa.BinOp); ok {
			if c, ok := bo.Y.(*ssa.Call); ok {
				if b, ok := c.Call.Value.(*ssa.Builtin); ok && b.Name() == "len" {
					return c.Call.Args[0]
				}
			}
		}
	}
	return nil
}
