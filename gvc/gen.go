package main

// gen.go: loading /repo, callee resolution, top-level verification of one function.

import (
	"fmt"
	"go/ast"
	"go/token"
	"go/types"
	"os"
	"path/filepath"
	"sort"
	"strings"

	"golang.org/x/tools/go/packages"
	"golang.org/x/tools/go/ssa"
	"golang.org/x/tools/go/ssa/ssautil"
)

const modulePath = "github.com/openconfig/gnmi"

type SpecDef struct {
	Pkg    string
	Name   string
	Params []string
	Ret    string
	Axioms []*CExpr
}

type effects struct {
	fn       string
	blocking []string
	callees  []string
	spawns   []string
}

type Gen struct {
	repo    string
	fset    *token.FileSet
	pkgs    []*packages.Package
	prog    *ssa.Program
	spkgs   map[string]*ssa.Package
	tpkgs   map[string]*types.Package
	files   map[*token.File]*ast.File
	cs      *ContractSet
	abstract *ContractSet // cross-package abstract contracts (assumed)
	curEffects *effects
	allEffects map[string]*effects
	sentinels  map[*ssa.Global]bool
	usesFrozen, freezesKnown, hasFreezes bool
	needClosure bool
	embedded map[string]bool
	freezesBy map[string]bool
	tracked map[string]bool // "pkg|struct": struct types that contracts of package pkg constrain with typed(); only functions of pkg track them
	curPkg  string
}

func loadGen(repo string, patterns []string, stubDir string) (*Gen, error) {
	mode := packages.LoadAllSyntax
	if os.Getenv("GVC_FASTLOAD") != "0" {
		// module packages from source, dependencies from export data (their functions are external anyway)
		mode = packages.LoadSyntax
	}
	cfg := &packages.Config{Mode: mode, Dir: repo, BuildFlags: []string{"-tags=verif"}, Tests: false}
	pkgs, err := packages.Load(cfg, patterns...)
	if err != nil {
		return nil, err
	}
	nerr := 0
	packages.Visit(pkgs, nil, func(p *packages.Package) {
		for _, e := range p.Errors {
			if strings.HasPrefix(p.PkgPath, modulePath) {
				fmt.Fprintln(os.Stderr, "load error:", e)
				nerr++
			}
		}
	})
	if nerr > 0 {
		return nil, fmt.Errorf("%d load errors", nerr)
	}
	var prog *ssa.Program
	if mode == packages.LoadAllSyntax {
		prog, _ = ssautil.AllPackages(pkgs, ssa.GlobalDebug)
	} else {
		prog, _ = ssautil.Packages(pkgs, ssa.GlobalDebug)
	}
	prog.Build()
	g := &Gen{repo: repo, fset: prog.Fset, pkgs: pkgs, prog: prog, spkgs: map[string]*ssa.Package{}, tpkgs: map[string]*types.Package{},
		files: map[*token.File]*ast.File{}, cs: newContractSet(), abstract: newContractSet(), allEffects: map[string]*effects{}}
	g.cs.Specs = map[string]*SpecDef{}
	g.cs.Specs["sentinel"] = &SpecDef{Name: "sentinel", Params: []string{"any"}, Ret: "bool"}
	packages.Visit(pkgs, nil, func(p *packages.Package) {
		if p.Types != nil {
			g.tpkgs[p.PkgPath] = p.Types
		}
		if sp := prog.Package(p.Types); sp != nil {
			g.spkgs[p.PkgPath] = sp
		}
		if strings.HasPrefix(p.PkgPath, modulePath) {
			for _, f := range p.Syntax {
				g.files[prog.Fset.File(f.Pos())] = f
			}
		}
	})
	g.computeSentinels()
	// contract files in the module packages
	var cerr error
	packages.Visit(pkgs, nil, func(p *packages.Package) {
		if !strings.HasPrefix(p.PkgPath, modulePath) {
			return
		}
		for _, f := range p.GoFiles {
			if filepath.Base(f) == "verif_contracts.go" {
				if err := g.cs.parseContractFile(f, p.PkgPath); err != nil && cerr == nil {
					cerr = err
				}
			}
		}
	})
	if cerr != nil {
		return nil, cerr
	}
	// stubs and abstract contracts
	stubs, _ := filepath.Glob(filepath.Join(stubDir, "*.gvc"))
	sort.Strings(stubs)
	for _, f := range stubs {
		if err := g.cs.parseContractFile(f, ""); err != nil {
			return nil, err
		}
	}
	return g, nil
}

// sentinelGlobals: package-level variables of interface type whose only store in the whole package is
// `v = errors.New(...)` / `fmt.Errorf(...)` / `status.Error(...)` in the package initialiser. They are constants.
func (g *Gen) computeSentinels() {
	g.sentinels = map[*ssa.Global]bool{}
	for path, sp := range g.spkgs {
		if path == "io" {
			// io.EOF is initialised the same way (`var EOF = errors.New("EOF")`); dependencies are loaded without bodies,
			// so this one is taken on trust (listed among the assumptions of every check)
			if gl, ok := sp.Members["EOF"].(*ssa.Global); ok {
				g.sentinels[gl] = true
			}
		}
		if !strings.HasPrefix(path, modulePath) {
			continue
		}
		stores := map[*ssa.Global][]*ssa.Store{}
		addrTaken := map[*ssa.Global]bool{}
		for f := range ssaAllFuncs(g, sp) {
			for _, b := range f.Blocks {
				for _, in := range b.Instrs {
					if st, ok := in.(*ssa.Store); ok {
						if gl, ok := st.Addr.(*ssa.Global); ok {
							stores[gl] = append(stores[gl], st)
						}
					}
					for _, op := range in.Operands(nil) {
						if gl, ok := (*op).(*ssa.Global); ok {
							switch u := in.(type) {
							case *ssa.UnOp:
								_ = u
							case *ssa.Store:
								if u.Addr != gl {
									addrTaken[gl] = true
								}
							default:
								addrTaken[gl] = true
							}
						}
					}
				}
			}
		}
		for gl, sts := range stores {
			if addrTaken[gl] || len(sts) != 1 || sts[0].Parent().Name() != "init" {
				continue
			}
			if _, isIface := gl.Type().Underlying().(*types.Pointer).Elem().Underlying().(*types.Interface); !isIface {
				continue
			}
			if c, ok := sts[0].Val.(*ssa.Call); ok {
				if f, ok := c.Call.Value.(*ssa.Function); ok {
					switch f.String() {
					case "errors.New", "fmt.Errorf", "google.golang.org/grpc/status.Error", "google.golang.org/grpc/status.Errorf":
						g.sentinels[gl] = true
					}
				}
			}
		}
	}
}

func (x *Exec) sentinelTerm(gl *ssa.Global) string {
	x.vc.gmode++
	defer func() { x.vc.gmode-- }()
	vc := x.vc
	c := quote("sentinel$" + gl.Pkg.Pkg.Path() + "." + gl.Name())
	if !vc.isDeclared(c) {
		if !strings.HasPrefix(gl.Pkg.Pkg.Path(), modulePath) {
			vc.note(gl.Pkg.Pkg.Path() + "." + gl.Name() + " assumed to be a non-nil constant error, distinct from this module's sentinel errors (standard library initialiser not examined)")
		}
		vc.declConst(c, sAny)
		vc.declFun("spec$sentinel", []string{sAny}, sBool)
		vc.assert(and(not(eq(app("a_typ", c), "0")), app("spec$sentinel", c)))
		for _, o := range vc.sentinelOrder {
			vc.assert(not(eq(c, o)))
		}
		vc.sentinelOrder = append(vc.sentinelOrder, c)
	}
	return c
}

// embeddedByValue: struct types that occur as a by-value field (or array/slice element) of some other type of the
// module: pointers to them may designate sub-objects. All other struct pointers designate whole allocated objects.
func (g *Gen) embeddedByValue(t types.Type) bool {
	if g.embedded == nil {
		g.embedded = map[string]bool{}
		seen := map[types.Type]bool{}
		var visit func(t types.Type)
		visit = func(t types.Type) {
			if seen[t] {
				return
			}
			seen[t] = true
			switch u := t.Underlying().(type) {
			case *types.Struct:
				for i := 0; i < u.NumFields(); i++ {
					ft := u.Field(i).Type()
					if _, ok := ft.Underlying().(*types.Struct); ok {
						g.embedded[canonStructName(ft)] = true
					}
					visit(ft)
				}
			case *types.Pointer:
				visit(u.Elem())
			case *types.Slice:
				if _, ok := u.Elem().Underlying().(*types.Struct); ok {
					g.embedded[canonStructName(u.Elem())] = true
				}
				visit(u.Elem())
			case *types.Array:
				if _, ok := u.Elem().Underlying().(*types.Struct); ok {
					g.embedded[canonStructName(u.Elem())] = true
				}
				visit(u.Elem())
			case *types.Map:
				if _, ok := u.Elem().Underlying().(*types.Struct); ok {
					g.embedded[canonStructName(u.Elem())] = true
				}
				visit(u.Key())
				visit(u.Elem())
			}
		}
		for path, p := range g.tpkgs {
			if !strings.HasPrefix(path, modulePath) {
				continue
			}
			for _, n := range p.Scope().Names() {
				if tn, ok := p.Scope().Lookup(n).(*types.TypeName); ok {
					visit(tn.Type())
				}
			}
		}
	}
	return g.embedded[canonStructName(t)]
}

// trackedStruct: struct types mentioned by typed(x, "T") in some contract or predicate. Only these carry a runtime
// type tag (RType); every other allocation is tagged 0, so the allocates discipline only concerns them. The tag is
// tracked only while verifying functions of the package whose contracts use typed() (independent of which other
// packages happen to be loaded for a property).
func (g *Gen) trackedStruct(t types.Type) bool {
	if g.tracked == nil {
		g.tracked = map[string]bool{}
		var scan func(e *CExpr, pkg string)
		scan = func(e *CExpr, pkg string) {
			if e == nil {
				return
			}
			if e.Op == "call" && e.Name == "typed" && len(e.Args) == 2 && e.Args[1].Op == "str" {
				name := e.Args[1].Name
				if p := g.tpkgs[pkg]; p != nil {
					if obj := p.Scope().Lookup(name); obj != nil {
						g.tracked[pkg+"|"+canonStructName(obj.Type())] = true
					}
				}
				if k := strings.LastIndex(name, "."); k >= 0 {
					for path, p := range g.tpkgs {
						if strings.HasSuffix(path, "/"+name[:k]) || path == name[:k] {
							if obj := p.Scope().Lookup(name[k+1:]); obj != nil {
								g.tracked[pkg+"|"+canonStructName(obj.Type())] = true
							}
						}
					}
				}
			}
			for _, a := range e.Args {
				scan(a, pkg)
			}
		}
		for _, pd := range g.cs.Preds {
			scan(pd.Body, pd.Pkg)
		}
		for _, c := range g.cs.Funcs {
			for _, cl := range c.Req {
				scan(cl.Expr, c.Pkg)
			}
			for _, cl := range c.Ens {
				scan(cl.Expr, c.Pkg)
			}
			for _, cls := range c.Inv {
				for _, cl := range cls {
					scan(cl.Expr, c.Pkg)
				}
			}
		}
	}
	return g.tracked[g.curPkg+"|"+canonStructName(t)]
}

// anyFreezes: does the package under verification deal with retained (frozen) arrays at all - does one of its own
// contracts, or a stub, carry a `freezes` clause? (Per package, so that loading more packages does not change the
// obligations of the others.)
func (g *Gen) anyFreezes() bool {
	if g.freezesBy == nil {
		g.freezesBy = map[string]bool{}
		for _, c := range g.cs.Funcs {
			if len(c.Freezes) > 0 {
				if c.NoBody {
					g.freezesBy["*"] = true
				} else {
					g.freezesBy[c.Pkg] = true
				}
			}
		}
	}
	return g.freezesBy["*"] || g.freezesBy[g.curPkg]
}

func (g *Gen) fileOf(pos token.Pos) *ast.File {
	tf := g.fset.File(pos)
	if tf == nil {
		return nil
	}
	return g.files[tf]
}

func (g *Gen) pkgByPath(p string) *types.Package { return g.tpkgs[p] }

// importedPkg finds a package by the name used for it in pkg's files (or any loaded package with that name).
func (g *Gen) importedPkg(pkg *types.Package, name string) *types.Package {
	if pkg != nil {
		for _, p := range g.pkgs {
			_ = p
		}
		// search syntax of this package for an import with that local name
		var found *types.Package
		packages.Visit(g.pkgs, nil, func(p *packages.Package) {
			if found != nil || p.Types != pkg {
				return
			}
			for _, f := range p.Syntax {
				for _, im := range f.Imports {
					path := strings.Trim(im.Path.Value, "\"")
					ip := g.tpkgs[path]
					if ip == nil {
						continue
					}
					local := ip.Name()
					if im.Name != nil {
						local = im.Name.Name
					}
					if local == name {
						found = ip
						return
					}
				}
			}
		})
		if found != nil {
			return found
		}
		for _, ip := range pkg.Imports() {
			if ip.Name() == name {
				return ip
			}
		}
	}
	// fall back: unique loaded package with that name, preferring the module
	var cands []*types.Package
	for path, p := range g.tpkgs {
		if p.Name() == name {
			if strings.HasPrefix(path, modulePath) {
				return p
			}
			cands = append(cands, p)
		}
	}
	if len(cands) >= 1 {
		sort.Slice(cands, func(i, j int) bool { return cands[i].Path() < cands[j].Path() })
		return cands[0]
	}
	return nil
}

func inModule(p *types.Package) bool {
	return p != nil && strings.HasPrefix(p.Path(), modulePath)
}

func relName(f *ssa.Function) string {
	if f.Pkg != nil {
		return f.RelString(f.Pkg.Pkg)
	}
	return f.String()
}

func (g *Gen) isFlagChan(ch ssa.Value) bool {
	// ctx.Done(): only ever closed
	if c, ok := ch.(*ssa.Call); ok && c.Call.IsInvoke() && c.Call.Method.Name() == "Done" {
		if n, ok := c.Call.Value.Type().(*types.Named); ok && n.Obj().Pkg() != nil && n.Obj().Pkg().Path() == "context" {
			return true
		}
	}
	// channel loaded from a field declared `flagchan T.f`
	u, ok := ch.(*ssa.UnOp)
	if !ok {
		return false
	}
	fa, ok := u.X.(*ssa.FieldAddr)
	if !ok {
		return false
	}
	pt := fa.X.Type().Underlying().(*types.Pointer).Elem()
	n, ok := pt.(*types.Named)
	if !ok {
		return false
	}
	st := pt.Underlying().(*types.Struct)
	key := n.Obj().Pkg().Path() + "|" + n.Obj().Name() + "." + st.Field(fa.Field).Name()
	return g.cs.FlagChans[key]
}

// flagSignal: for a channel loaded from a field declared `flagchan T.f signals Pred`: the predicate name, the owning
// object's SSA value and its package.
func (g *Gen) flagSignal(ch ssa.Value) (string, ssa.Value, *types.Package) {
	u, ok := ch.(*ssa.UnOp)
	if !ok {
		return "", nil, nil
	}
	fa, ok := u.X.(*ssa.FieldAddr)
	if !ok {
		return "", nil, nil
	}
	pt := fa.X.Type().Underlying().(*types.Pointer).Elem()
	n, ok := pt.(*types.Named)
	if !ok {
		return "", nil, nil
	}
	st := pt.Underlying().(*types.Struct)
	key := n.Obj().Pkg().Path() + "|" + n.Obj().Name() + "." + st.Field(fa.Field).Name()
	if p := g.cs.FlagSignals[key]; p != "" {
		return p, fa.X, n.Obj().Pkg()
	}
	return "", nil, nil
}

func (g *Gen) noteCall(x *Exec, tgt *target, in ssa.Instruction) {
	if g.curEffects != nil && x.discovery == 0 {
		g.curEffects.callees = append(g.curEffects.callees, tgt.display)
	}
}
func (g *Gen) noteSpawn(x *Exec, s *ssa.Go) {
	if g.curEffects != nil && x.discovery == 0 {
		g.curEffects.spawns = append(g.curEffects.spawns, x.srcOf(s))
	}
}

func (g *Gen) inlineContract(fn *ssa.Function) *Contract {
	if fn.Pkg == nil {
		return nil
	}
	return g.cs.Funcs[fn.Pkg.Pkg.Path()+"|"+relName(fn)]
}

func (g *Gen) lookupContract(callerPkg *types.Package, pkgPath, name, full string) *Contract {
	samePkg := callerPkg != nil && callerPkg.Path() == pkgPath
	// client-specific view of a dependency: `func <full> @<callerpkgname>`
	if callerPkg != nil && !samePkg {
		if c, ok := g.cs.Funcs["|"+full+" @"+callerPkg.Name()]; ok {
			return c
		}
	}
	if !samePkg {
		if c, ok := g.cs.Funcs["|"+full]; ok {
			return c
		}
	}
	if c, ok := g.cs.Funcs[pkgPath+"|"+name]; ok && !c.Inline {
		return c
	}
	if c, ok := g.cs.Funcs["|"+full]; ok {
		return c
	}
	return nil
}

func (g *Gen) resolve(x *Exec, cc *ssa.CallCommon) *target {
	var callerPkg *types.Package
	if x.fn.Pkg != nil {
		callerPkg = x.fn.Pkg.Pkg
	}
	if cc.IsInvoke() {
		t := cc.Value.Type()
		tname := "interface"
		var tp *types.Package
		if n, ok := t.(*types.Named); ok {
			tname = n.Obj().Name()
			tp = n.Obj().Pkg()
		}
		name := "iface " + tname + "." + cc.Method.Name()
		pp := ""
		if tp != nil {
			pp = tp.Path()
		}
		full := "iface " + pp + "." + tname + "." + cc.Method.Name()
		if tp == nil {
			full = "iface " + tname + "." + cc.Method.Name()
		}
		tg := &target{display: tname + "." + cc.Method.Name(), external: !inModule(tp), dynamic: true, pkg: tp}
		tg.con = g.lookupContract(callerPkg, pp, name, full) // (a client package may have its own view: `func iface <full> @<pkg>`)
		sig := cc.Method.Type().(*types.Signature)
		for i := 0; i < sig.Params().Len(); i++ {
			tg.params = append(tg.params, sig.Params().At(i).Name())
		}
		if tg.con != nil && len(tg.con.Params) > 0 {
			tg.params = tg.con.Params
		}
		if tg.pkg == nil {
			tg.pkg = callerPkg
		}
		return tg
	}
	switch f := cc.Value.(type) {
	case *ssa.Function:
		return g.resolveFunc(callerPkg, f, nil)
	case *ssa.MakeClosure:
		return g.resolveFunc(callerPkg, f.Fn.(*ssa.Function), f)
	}
	// dynamic function value
	tg := &target{dynamic: true, pkg: callerPkg, display: "dynamic"}
	v := cc.Value
	if u, ok := v.(*ssa.UnOp); ok {
		switch a := u.X.(type) {
		case *ssa.FieldAddr:
			pt := a.X.Type().Underlying().(*types.Pointer).Elem()
			st := pt.Underlying().(*types.Struct)
			tn := shortTypeKey(pt)
			if n, ok := pt.(*types.Named); ok {
				tn = n.Obj().Name()
				tg.pkg = n.Obj().Pkg()
			}
			tg.display = "field " + tn + "." + st.Field(a.Field).Name()
		case *ssa.Global:
			tg.display = "global " + a.Name()
			tg.pkg = a.Pkg.Pkg
		case *ssa.FreeVar:
			tg.display = "captured " + a.Name()
		case *ssa.Alloc:
			tg.display = "local " + a.Comment
		}
	}
	if p, ok := v.(*ssa.Parameter); ok {
		tg.display = "param " + p.Name()
	}
	if c, ok := v.(*ssa.Call); ok {
		// a function value returned by a statically known function: contract `func result <callee>`
		if f, ok := c.Call.Value.(*ssa.Function); ok && f.Pkg != nil {
			tg.display = "result " + relName(f)
			tg.pkg = f.Pkg.Pkg
		}
	}
	if e, ok := v.(*ssa.Extract); ok {
		tg.display = "dynamic " + v.Name()
		// a function value that is one of the results of a statically known function: contract `func result <callee>`
		// a named local holding it (e.g. the value variable of `for k, f := range m`): contract `func local <name> in <fn>`
		for _, b := range x.fn.Blocks {
			for _, in := range b.Instrs {
				if d, ok := in.(*ssa.DebugRef); ok && d.X == v && !d.IsAddr {
					if id, ok := identName(d); ok && isLocalObj(d) {
						tg.display = "local " + id
					}
				}
			}
		}
		if c, ok := e.Tuple.(*ssa.Call); ok {
			if f, ok := c.Call.Value.(*ssa.Function); ok {
				if f.Pkg != nil && inModule(f.Pkg.Pkg) {
					tg.display = "result " + relName(f)
					tg.pkg = f.Pkg.Pkg
				} else {
					tg.display = "result " + f.String() // e.g. the cancel function of context.WithTimeout
				}
			}
		}
	}
	pp := ""
	if tg.pkg != nil {
		pp = tg.pkg.Path()
	}
	tg.con = g.lookupContract(nil, pp, tg.display, tg.display)
	if tg.con == nil && callerPkg != nil {
		// function-local names: "param f" / "captured f" qualified by the enclosing function
		tg.con = g.cs.Funcs[callerPkg.Path()+"|"+tg.display+" in "+relName(x.fn)]
	}
	if tg.con == nil {
		// a value of a named function type of this module: contract `func type <Name>` in the type's package
		if n, ok := v.Type().(*types.Named); ok && n.Obj().Pkg() != nil && inModule(n.Obj().Pkg()) {
			if c := g.cs.Funcs[n.Obj().Pkg().Path()+"|type "+n.Obj().Name()]; c != nil {
				tg.con = c
				tg.display = "type " + n.Obj().Name()
				tg.pkg = n.Obj().Pkg()
			}
		}
	}
	sig := cc.Signature()
	for i := 0; i < sig.Params().Len(); i++ {
		tg.params = append(tg.params, sig.Params().At(i).Name())
	}
	if tg.con != nil && len(tg.con.Params) > 0 {
		tg.params = tg.con.Params
	}
	tg.external = false
	return tg
}

func (g *Gen) resolveFunc(callerPkg *types.Package, f *ssa.Function, mc *ssa.MakeClosure) *target {
	tg := &target{fn: f, closure: mc}
	var fp *types.Package
	if f.Pkg != nil {
		fp = f.Pkg.Pkg
	} else if f.Object() != nil {
		fp = f.Object().Pkg()
	}
	tg.pkg = fp
	tg.external = !inModule(fp)
	tg.display = f.Name()
	if f.Pkg != nil {
		tg.display = relName(f)
	} else {
		tg.display = f.String()
	}
	if tg.external {
		tg.display = f.String()
	}
	pp := ""
	if fp != nil {
		pp = fp.Path()
	}
	tg.con = g.lookupContract(callerPkg, pp, relNameSafe(f), f.String())
	for _, p := range f.Params {
		tg.params = append(tg.params, p.Name())
	}
	if len(f.Params) == 0 {
		sig := f.Signature
		if sig.Recv() != nil {
			tg.params = append(tg.params, sig.Recv().Name())
		}
		for i := 0; i < sig.Params().Len(); i++ {
			tg.params = append(tg.params, sig.Params().At(i).Name())
		}
	}
	if tg.con != nil && len(tg.con.Params) > 0 {
		tg.params = tg.con.Params
	}
	if tg.pkg == nil {
		tg.pkg = callerPkg
	}
	return tg
}

func relNameSafe(f *ssa.Function) string {
	if f.Pkg != nil {
		return relName(f)
	}
	return f.String()
}

func hasLoop(f *ssa.Function) bool {
	for _, b := range f.Blocks {
		for _, s := range b.Succs {
			if s.Dominates(b) {
				return true
			}
		}
	}
	return false
}

func (g *Gen) inlinable(x *Exec, f *ssa.Function) bool {
	if len(f.Blocks) == 0 {
		return false
	}
	var fp *types.Package
	if f.Pkg != nil {
		fp = f.Pkg.Pkg
	} else if f.Object() != nil {
		fp = f.Object().Pkg()
	}
	if !inModule(fp) && f.Synthetic == "" {
		return false
	}
	if fp != nil && !inModule(fp) {
		return false // instantiations / wrappers of functions of other modules (e.g. atomic.Pointer[T].Load): external
	}
	// modularity: only helpers of the package under verification, generated protobuf accessors and synthetic
	// wrappers are inlined; anything else needs a contract.
	if f.Synthetic == "" && fp != nil {
		top := x.stack[0]
		samePkg := top.Pkg != nil && top.Pkg.Pkg == fp
		isPB := strings.Contains(fp.Path(), "/proto/") || strings.HasSuffix(fp.Path(), "/proto")
		if !samePkg && !isPB {
			return false
		}
	}
	if x.depth >= 6 {
		return false
	}
	for _, s := range x.stack {
		if s == f {
			return false
		}
	}
	if f == x.fn {
		return false
	}
	if hasLoop(f) {
		return false
	}
	n := 0
	for _, b := range f.Blocks {
		n += len(b.Instrs)
	}
	return n <= 200
}

// ---------------------------------------------------------------- top level

func (g *Gen) findFunc(pkgPath, name string) *ssa.Function {
	sp := g.spkgs[pkgPath]
	if sp == nil {
		return nil
	}
	var res *ssa.Function
	var visit func(f *ssa.Function)
	visit = func(f *ssa.Function) {
		if relName(f) == name {
			res = f
		}
		for _, a := range f.AnonFuncs {
			visit(a)
		}
	}
	for _, m := range sp.Members {
		switch mm := m.(type) {
		case *ssa.Function:
			visit(mm)
		case *ssa.Type:
			for _, t := range []types.Type{mm.Type(), types.NewPointer(mm.Type())} {
				ms := g.prog.MethodSets.MethodSet(t)
				for i := 0; i < ms.Len(); i++ {
					if f := g.prog.MethodValue(ms.At(i)); f != nil && f.Pkg == sp && f.Synthetic == "" {
						visit(f)
					}
				}
			}
		}
	}
	return res
}

func hasProp(props []string, p string) bool {
	if p == "ALL" {
		return true // every obligation of every function under contract (mutation campaigns, audits; not a registered check)
	}
	for _, q := range props {
		if q == p {
			return true
		}
	}
	return false
}

// verifyFunc generates the VC stream for fn against its contract.
func (g *Gen) verifyFunc(fn *ssa.Function, con *Contract) (vc *VC, err error) {
	name := fn.Pkg.Pkg.Name() + "." + relName(fn)
	vc = newVC(name)
	defer func() {
		if r := recover(); r != nil {
			if ce, ok := r.(contractError); ok {
				err = fmt.Errorf("contract error in %s (%s:%d): %s", name, con.File, con.Line, string(ce))
				return
			}
			panic(r)
		}
	}()
	g.curEffects = &effects{fn: name}
	g.curPkg = fn.Pkg.Pkg.Path()
	g.allEffects[name] = g.curEffects
	x := &Exec{g: g, vc: vc, fn: fn, con: con, vals: map[ssa.Value]string{}, tups: map[ssa.Value][]string{}, addrs: map[ssa.Value]*LValue{},
		iters: map[ssa.Value]*iterInfo{}, constLen: map[ssa.Value]int{}, prefix: name, props: con.Props, wrap: con.Wrap, callOrd: map[string]int{},
		closureOf: map[ssa.Value]*ssa.MakeClosure{}, stack: []*ssa.Function{fn}}
	vc.declFun("root", []string{sInt}, sInt)
	vc.assert("(forall ((r Int)) (! (=> (>= r 0) (= (root r) r)) :pattern ((root r))))")
	vc.declFun("fnid", []string{sInt}, sInt)
	st := &State{reach: "true", comp: map[string]string{}, base: "b0"}
	x.entry = st.clone()
	vc.getNext(st)
	// parameters
	for _, p := range fn.Params {
		c := quote("p$" + p.Name())
		vc.declConst(c, vc.sortOf(p.Type()))
		x.vals[p] = c
		x.assumeType(st, c, p.Type())
		x.assumeUnowned(st, c, p.Type())
	}
	for _, fv := range fn.FreeVars {
		c := quote("fv$" + fv.Name())
		vc.declConst(c, vc.sortOf(fv.Type()))
		x.vals[fv] = c
		x.assumeType(st, c, fv.Type())
		vc.assert(not(eq(c, "0")))
	}
	// requires
	for _, cl := range con.Req {
		env := x.newEnv(st, st)
		vc.assert(env.evalBool(cl.Expr))
	}
	for _, cl := range con.Maintains {
		env := x.newEnv(st, st)
		vc.assert(env.evalBool(cl.Expr))
	}
	// a closure under contract counts its own invocations: calls(self)
	if fn.Parent() != nil {
		vc.declConst("p$self", sInt)
		vc.assert("(> p$self 0)")
		vc.regComp("Calls", "(Array Int Int)")
		x.selfRef = "p$self"
	}
	x.preEntry = st.clone()
	if x.selfRef != "" {
		vc.set(st, "Calls", store(vc.get(st, "Calls"), x.selfRef, app("+", sel(vc.get(st, "Calls"), x.selfRef), "1")))
	}
	// declared ghost effects happen on entry (effects that mention results are applied at the returns instead)
	for _, ef := range con.Effects {
		if exprMentionsResult(ef.Expr) {
			continue
		}
		env := x.newEnv(st, st)
		v := env.eval(ef.Expr)
		comp := env.compByName("ghost:" + ef.Name)
		if comp == "" {
			panic(contractErr("effect: unknown ghost " + ef.Name))
		}
		vc.set(st, comp, v.t)
	}
	// vacuity: the precondition must be satisfiable
	vc.oblige(&Obl{Name: name + "/cover/entry", Kind: "cover", Props: con.Props, Reach: "true", Goal: "false", Cover: true, Src: "precondition satisfiable"})
	x.entry = st.clone()
	x.entry0 = x.entry
	st.entry = x.entry
	x.entryNext = vc.getNext(st)
	vc.localsFrom = x.entryNext
	x.run(st)
	// postconditions and frame at every return
	sig := fn.Signature
	for ri, r := range x.rets {
		for _, ef := range con.Effects {
			if !exprMentionsResult(ef.Expr) {
				continue
			}
			env := x.newEnv(x.oldOf(r.st), x.oldOf(r.st))
			env.atBlock = r.blk
			env.paramsAtEntry = true
			env.bindResults(sig, r.vals)
			v := env.eval(ef.Expr)
			comp := env.compByName("ghost:" + ef.Name)
			vc.set(r.st, comp, v.t)
		}
		for _, cl := range con.Ens {
			if cl.Trusted {
				vc.note("trusted postcondition (assumed by callers, not proved against the body) of " + name + ": " + cl.Text)
				continue
			}
			env := x.newEnv(r.st, x.oldOf(r.st))
			env.atBlock = r.blk
			env.paramsAtEntry = true
			env.bindResults(sig, r.vals)
			t := env.evalBool(cl.Expr)
			x.obligeClause("post", clauseLabel(cl), r.st.reach, t, cl)
		}
		for _, cl := range con.Maintains {
			t := x.newEnv(r.st, x.oldOf(r.st)).evalBool(cl.Expr)
			x.obligeClause("maintains", clauseLabel(cl), r.st.reach, t, cl)
		}
		for _, cl := range con.Preserves {
			after := x.newEnv(r.st, x.oldOf(r.st)).eval(cl.Expr)
			before := x.newEnv(x.preEntry, x.preEntry).eval(cl.Expr)
			x.obligeClause("preserves", clauseLabel(cl), r.st.reach, eq(after.t, before.t), cl)
		}
		x.frameCheck(r.st, ri)
	}
	// a call site the contract speaks about must exist
	for site, cls := range con.Asserts {
		if !x.seenSites[site] {
			var have []string
			for s := range x.seenSites {
				have = append(have, s)
			}
			sort.Strings(have)
			vc.note("contract of " + name + " names a call site that does not exist: " + site + " (sites: " + strings.Join(have, "; ") + ")")
			for _, cl := range cls {
				x.obligeClause("assert", site+"/site-missing/"+clauseLabel(cl), "true", "false", cl)
			}
		}
	}
	var hsites []string
	for site := range vc.hitsUsed {
		hsites = append(hsites, site)
	}
	sort.Strings(hsites)
	for _, site := range hsites {
		if !x.seenSites[site] {
			vc.oblige(&Obl{Name: name + "/assert/" + strings.ReplaceAll(site, " ", "_") + "/site-missing/hits", Kind: "assert", Props: con.Props, Reach: "true", Goal: "false", Src: "hits() names a call site that does not exist: " + site})
		}
	}
	for site := range con.SiteSets {
		if !x.seenSites[site] {
			vc.oblige(&Obl{Name: name + "/assert/" + strings.ReplaceAll(site, " ", "_") + "/site-missing/ghost-set", Kind: "assert", Props: con.Props, Reach: "true", Goal: "false", Src: "ghost assignment names a call site that does not exist: " + site})
		}
	}
	if len(x.rets) > 0 {
		var rs []string
		for _, r := range x.rets {
			rs = append(rs, r.st.reach)
		}
		vc.oblige(&Obl{Name: name + "/cover/return", Kind: "cover", Props: con.Props, Reach: or(rs...), Goal: "false", Cover: true, Src: "some return reachable"})
	}
	g.curEffects = nil
	return vc, nil
}

// frameCheck: everything not named in modifies is unchanged on pre-existing objects.
func (x *Exec) frameCheck(st *State, ri int) {
	vc := x.vc
	goals, ok := x.frameGoals(st, nil)
	if !ok {
		vc.oblige(&Obl{Name: x.prefix + "/frame/unknown-callee", Kind: "frame", Props: x.props, Reach: st.reach, Goal: "false", Src: "function calls an unknown callee but does not declare modifies *"})
		return
	}
	for _, fg := range goals {
		vc.oblige(&Obl{Name: x.prefix + "/frame/" + fg.bare, Kind: "frame", Props: x.props, Reach: st.reach, Goal: fg.goal, Src: "not in modifies: " + fg.bare})
	}
}

// protectedHeaps: field heaps of monitor-protected fields.
func (x *Exec) protectedHeaps() map[string]bool {
	out := map[string]bool{}
	for _, md := range x.g.cs.Monitors {
		p := x.g.pkgByPath(md.Pkg)
		if p == nil {
			continue
		}
		obj := p.Scope().Lookup(md.Type)
		if obj == nil {
			continue
		}
		s, ok := obj.Type().Underlying().(*types.Struct)
		if !ok {
			continue
		}
		for _, fn := range md.Fields {
			for i := 0; i < s.NumFields(); i++ {
				if s.Field(i).Name() == fn {
					out[x.vc.fieldHeap(obj.Type(), i)] = true
				}
			}
		}
	}
	return out
}

type frameGoal struct {
	comp, bare, goal string
}

// frameGoals: for each component of st that differs from the entry state, the statement that it changed only
// where the contract's modifies clause allows. only != nil restricts to those components.
func (x *Exec) frameGoals(st *State, only map[string]bool) ([]frameGoal, bool) {
	vc := x.vc
	con := x.con
	if con == nil {
		return nil, true
	}
	// `modifies *` covers the heap and the ghosts, not the lock state: a function returns with the locks it was
	// entered with unless it says `modifies held(m)`
	allMod := false
	for _, m := range con.Mods {
		if m.All {
			allMod = true
		}
	}
	if allMod {
		if _, ok := vc.reg().sorts["Held"]; !ok {
			return nil, true
		}
	}
	entry := x.oldOf(st)
	if st.base != entry.base && !allMod {
		return nil, false
	}
	envOld := x.newEnv(entry, entry)
	allowedWhole := map[string]bool{}
	allowedRefs := map[string][]string{}
	for _, ef := range con.Effects {
		allowedWhole[envOld.compByName("ghost:"+ef.Name)] = true
	}
	for _, m := range con.Mods {
		if m.All {
			continue
		}
		if allMod && !(m.Expr != nil && m.Expr.Op == "call" && m.Expr.Name == "held") {
			continue
		}
		if m.MapHeap {
			mv := envOld.eval(m.Expr)
			if mt, ok := mv.typ.Underlying().(*types.Map); ok {
				allowedWhole[vc.mapDom(mt)] = true
				allowedWhole[vc.mapVal(mt)] = true
			}
			continue
		}
		if m.Heap != "" {
			for _, comp := range envOld.compsByName(m.Heap) {
				allowedWhole[comp] = true
			}
			continue
		}
		for _, cr := range envOld.modTargets(m) {
			allowedRefs[cr.comp] = append(allowedRefs[cr.comp], cr.ref)
		}
	}
	protected := x.protectedHeaps()
	var comps []string
	for k := range st.comp {
		if protected[k] {
			continue // monitor-protected fields: governed by the ownership obligations and the monitor invariant
		}
		comps = append(comps, k)
	}
	sort.Strings(comps)
	nextEntry := x.entryNext
	var out []frameGoal
	for _, k := range comps {
		if only != nil && !only[k] {
			continue
		}
		if allMod && k != "Held" {
			continue
		}
		bare := strings.Trim(k, "|")
		if k == "RType" {
			// allocation discipline: tags change only to the struct types the contract declares (`allocates`)
			now, before := vc.get(st, k), vc.get(x.entry0, k)
			if now == before {
				continue
			}
			alts := []string{eq("(select "+now+" x)", "(select "+before+" x)")}
			for _, tn := range con.Allocates {
				t := x.newEnv(st, st).resolveType(tn)
				if !x.g.trackedStruct(t) {
					continue
				}
				alts = append(alts, eq("(select "+now+" x)", vc.structTID(t)))
			}
			out = append(out, frameGoal{k, "allocates", "(forall ((x Int)) (! " + or(alts...) + " :pattern ((select " + now + " x))))"})
			continue
		}
		// (Held is framed like a heap: a function returns with the locks it was entered with, unless its contract says
		// `modifies held(m)` - a forgotten Unlock is a frame violation)
		if k == "next" || k == "Owned" || k == "Calls" || k == "SiteHits" || k == "Spawns" || k == "Frozen" || strings.HasPrefix(bare, "armed$") || strings.HasPrefix(bare, "IterVis$") {
			continue
		}
		if allowedWhole[k] {
			continue
		}
		now, before := vc.get(st, k), vc.get(entry, k)
		if k == "Held" && x.entry0 != nil {
			before = vc.get(x.entry0, k) // the lock state is compared with the true entry, not with the acquisition snapshot
		}
		if now == before {
			continue
		}
		srt := vc.reg().sorts[k]
		var goal string
		if strings.HasPrefix(srt, "(Array Int ") {
			var excl []string
			if strings.HasPrefix(bare, "Arr$") || strings.HasPrefix(bare, "MapDom$") || strings.HasPrefix(bare, "MapVal$") {
				if _, ok := vc.reg().sorts["Owned"]; ok {
					excl = append(excl, not(sel(vc.get(st, "Owned"), "fr")))
				}
			}
			for _, r := range allowedRefs[k] {
				excl = append(excl, not(eq("fr", r)))
			}
			if k == "ChanClosed" && vc.isDeclared(quote("spec$isctxdone")) {
				// the Done channel of a context is closed by whoever cancels it, at any time: not this function's effect
				excl = append(excl, not(app("spec$isctxdone", "fr")))
			}
			goal = fmt.Sprintf("(forall ((fr Int)) (! (=> %s (= (select %s fr) (select %s fr))) :pattern ((select %s fr))))", and(append([]string{app("<", app("root", "fr"), nextEntry), "(not (= fr 0))"}, excl...)...), now, before, now)
		} else {
			goal = eq(now, before)
		}
		out = append(out, frameGoal{k, bare, goal})
	}
	return out, true
}

// ownership obligations (filled in by owner declarations)
func (x *Exec) ownerCheck(st *State, in ssa.Instruction, lv *LValue, write bool) {
	if lv.kind == "structref" && lv.ost != nil {
		// a whole struct-valued field (e.g. a time.Time) read or written through its address
		lv = &LValue{kind: "field", st: lv.ost, field: lv.ofield, base: lv.obase}
	}
	if lv.kind != "field" {
		return
	}
	n, ok := lv.st.(*types.Named)
	if !ok {
		return
	}
	sty := lv.st.Underlying().(*types.Struct)
	fname := sty.Field(lv.field).Name()
	for _, od := range x.g.cs.Owners {
		if od.Pkg != n.Obj().Pkg().Path() || !ownerFieldIs(n, od.Field, fname) {
			continue
		}
		x.ownerOblige(st, in, lv.st, lv.base, od, write, fname)
	}
}

func (x *Exec) ownerOblige(st *State, in ssa.Instruction, sty types.Type, base string, od *OwnerDef, write bool, what string) {
	vc := x.vc
	s := sty.Underlying().(*types.Struct)
	li := -1
	for i := 0; i < s.NumFields(); i++ {
		if s.Field(i).Name() == od.Lock {
			li = i
		}
	}
	if li < 0 {
		panic(contractErr("owner: no lock field " + od.Lock))
	}
	vc.regComp("Held", "(Array Int Int)")
	lockRef := vc.subRef(sty, li, base)
	h := sel(vc.get(st, "Held"), lockRef)
	cond := not(eq(h, "0"))
	if write {
		if _, isRW := s.Field(li).Type().Underlying().(*types.Struct); isRW && strings.HasSuffix(s.Field(li).Type().String(), "RWMutex") {
			cond = eq(h, "2")
		}
	}
	// objects allocated by this activation are not shared yet
	freshObj := app(">=", app("root", base), vc.getNext(x.entry))
	kind := "owner-read"
	if write {
		kind = "owner-write"
	}
	src := x.srcOf(in)
	o := &Obl{Name: fmt.Sprintf("%s/%s/%s", x.prefix, kind, src), Kind: kind, Props: x.props, Reach: st.reach, Goal: or(freshObj, cond), Src: what + " accessed without holding " + od.Lock + ": " + src}
	if in != nil && in.Pos().IsValid() {
		o.Pos = x.g.fset.Position(in.Pos())
	}
	vc.oblige(o)
}

func (x *Exec) ownerCheckMap(st *State, in ssa.Instruction, m ssa.Value, write bool) {
	// provenance: map value obtained (through type assertions) from a load of an owned field
	v := m
	for i := 0; i < 6; i++ {
		switch t := v.(type) {
		case *ssa.TypeAssert:
			v = t.X
			continue
		case *ssa.Extract:
			v = t.Tuple
			continue
		case *ssa.ChangeType:
			v = t.X
			continue
		case *ssa.UnOp:
			if fa, ok := t.X.(*ssa.FieldAddr); ok {
				pt := fa.X.Type().Underlying().(*types.Pointer).Elem()
				n, ok := pt.(*types.Named)
				if !ok {
					return
				}
				sty := pt.Underlying().(*types.Struct)
				fname := sty.Field(fa.Field).Name()
				for _, od := range x.g.cs.Owners {
					if od.Pkg == n.Obj().Pkg().Path() && ownerFieldIs(n, od.Field, fname) {
						x.ownerOblige(st, in, pt, x.value(fa.X), od, write, fname+" (map contents)")
					}
				}
			}
			return
		}
		return
	}
}

func debugIdent(d *ssa.DebugRef) (string, bool) {
	if id, ok := d.Expr.(*ast.Ident); ok {
		return id.Name, true
	}
	return "", false
}

func exprMentionsResult(e *CExpr) bool {
	if e == nil {
		return false
	}
	if e.Op == "ident" && (strings.HasPrefix(e.Name, "res") || e.Name == "err") {
		return true
	}
	for _, a := range e.Args {
		if exprMentionsResult(a) {
			return true
		}
	}
	return false
}

// oldOf: the state that old(...) denotes on the path of st.
func (x *Exec) oldOf(st *State) *State {
	if st != nil && st.entry != nil {
		return st.entry
	}
	return x.entry
}

// sameStructType: name denotes n itself or another named type of n's package declared with the very same struct
// (`type Leaf Tree`): monitors and owners declared for Tree also govern accesses through a *Leaf.
func sameStructType(n *types.Named, name string) bool {
	if n.Obj().Name() == name {
		return true
	}
	if n.Obj().Pkg() == nil {
		return false
	}
	obj := n.Obj().Pkg().Scope().Lookup(name)
	tn, ok := obj.(*types.TypeName)
	if !ok {
		return false
	}
	a, okA := tn.Type().Underlying().(*types.Struct)
	b, okB := n.Underlying().(*types.Struct)
	return okA && okB && a == b
}

func ownerFieldIs(n *types.Named, field, fname string) bool {
	k := strings.LastIndex(field, ".")
	if k < 0 {
		return false
	}
	return field[k+1:] == fname && sameStructType(n, field[:k])
}
