#!/bin/bash
# Must-fail corpus: every case is a change (to the code, or - the canaries - to a contract) under which the named check
# MUST raise an alarm (a VIOLATION line, or CHECK-ERROR vacuity for the contradiction canary). Each case is applied in a
# scratch worktree of /repo; /repo and the registered evidence are not touched. Exit 0 iff every case is caught.
# The patches must compile: each is built first.
set -u
export GOFLAGS=-mod=mod GOPROXY=off GOSUMDB=off GOTOOLCHAIN=local
D=/verif/selftest/cases
WT=/tmp/gvc-selftest-$$; OUT=/tmp/gvc-selftest-out-$$
git -C /repo worktree add -q --detach $WT HEAD || exit 2
trap 'git -C /repo worktree remove --force $WT; rm -rf $OUT' EXIT
bad=0
while read -r name prop; do
  [ -z "$name" ] && continue
  if ! git -C $WT apply $D/$name.diff 2>/dev/null; then echo "$name: PATCH DOES NOT APPLY (regenerate the case)"; bad=1; continue; fi
  if ! (cd $WT && go build ./... >/dev/null 2>&1); then echo "$name: does not compile"; bad=1; git -C $WT checkout -q .; continue; fi
  r=$(GVC_OUT=$OUT /verif/bin/gvc check -prop $prop -repo $WT 2>&1)
  v=$(echo "$r" | grep -o "obligation=[^ ]*" | head -1); e=$(echo "$r" | grep -o "CHECK-ERROR: vacuity[^(]*" | head -1)
  if [ -n "$v" ]; then echo "$name: caught by $prop ${v#obligation=}"; elif [ -n "$e" ]; then echo "$name: caught by $prop ($e)"; else echo "$name: MISSED by $prop"; bad=1; fi
  git -C $WT checkout -q .
done < $D/LIST.txt
# Must-pass corpus: behaviour-preserving edits (an extra log line, a renamed local, a rewritten condition, a getter
# instead of a field read, reordered independent statements) on which the named check must stay silent.
H=/verif/selftest/harmless
while read -r name prop; do
  [ -z "$name" ] && continue
  if ! git -C $WT apply $H/$name.diff 2>/dev/null; then echo "$name: PATCH DOES NOT APPLY (regenerate the case)"; bad=1; continue; fi
  if ! (cd $WT && go build ./... >/dev/null 2>&1); then echo "$name: does not compile"; bad=1; git -C $WT checkout -q .; continue; fi
  r=$(GVC_OUT=$OUT /verif/bin/gvc check -prop $prop -repo $WT 2>&1)
  if echo "$r" | grep -q "^VIOLATION\|CHECK-ERROR"; then echo "$name: FALSE ALARM from $prop: $(echo "$r" | grep "^VIOLATION\|CHECK-ERROR" | head -1 | cut -c1-200)"; bad=1; else echo "$name: $prop stays silent"; fi
  git -C $WT checkout -q .
done < $H/LIST.txt
[ $bad -eq 0 ] && echo "selftest: all cases as expected" || echo "selftest: FAILED"
exit $bad
