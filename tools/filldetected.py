#!/usr/bin/env python3
# usage: tools/filldetected.py   fills seeded/<name>/meta.json "detected_by" from seeded/RESULTS.txt (latest line per name+check wins)
import json, os, collections
res=collections.OrderedDict()
for l in open('/verif/seeded/RESULTS.txt'):
    f=l.split()
    if len(f)>=3 and f[2] in ('CAUGHT','MISSED','ERROR'):
        res[(f[0],f[1])]=(f[2],' '.join(f[3:]))
by=collections.defaultdict(list)
for (n,p),(v,o) in res.items():
    d={'check':p,'verdict':v}
    if v=='CAUGHT': d['first_failing_obligation']=o
    by[n].append(d)
n=0
for d in sorted(os.listdir('/verif/seeded')):
    mf='/verif/seeded/%s/meta.json'%d
    if not os.path.exists(mf) or d not in by: continue
    m=json.load(open(mf))
    if m.get('detected_by')!=by[d]:
        m['detected_by']=by[d]; json.dump(m,open(mf,'w'),indent=1); n+=1
print('updated',n)
