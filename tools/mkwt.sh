#!/bin/bash
# usage: tools/mkwt.sh <dir>   scratch worktree of /repo's HEAD with the contract files hidden (for independent mutation agents)
set -e
d=$1
git -C /repo worktree add --detach "$d" HEAD >/dev/null 2>&1
cd "$d"
fs=$(git ls-files | grep 'verif_contracts.go$')
git update-index --skip-worktree $fs
rm -f $fs
git status --short | head
echo "worktree $d ready"
