#!/bin/bash
# Confirms every seeded change in a scratch worktree: patch applies, module builds, demo FAILS with the patch,
# demo PASSES without it, and the existing tests of the touched packages (and their importers) pass with it.
export GOFLAGS=-mod=mod GOPROXY=off GOSUMDB=off GOTOOLCHAIN=local
WT=/root/scratch/confirm_wt
OUT=${1:-/root/scratch/confirm.log}
git -C /repo worktree remove --force $WT 2>/dev/null
git -C /repo worktree add -q --detach $WT b754e1c || exit 1
: > $OUT
for d in /verif/seeded/C*-[AB]; do
  n=$(basename $d)
  cd $WT && git checkout -q -- . && git clean -fdq
  dest=$(head -1 $d/demo_test.go | sed -n 's/.*copy to: *\([^ ]*\).*/\1/p')
  [ -z "$dest" ] && { echo "$n NO-DEST" >> $OUT; continue; }
  pkg=./$(dirname $dest)
  # pristine: demo passes
  cp $d/demo_test.go $WT/$dest
  if go test -vet=off -count=1 -timeout 300s $pkg -run 'Demo|ZZ|C[0-9][0-9][AB]' > /tmp/confirm_p.log 2>&1; then p=PASS; else p=FAIL; fi
  rm -f $WT/$dest
  if ! git apply $d/patch.diff 2>/dev/null; then echo "$n APPLY-FAIL" >> $OUT; continue; fi
  if ! go build ./... > /tmp/confirm_b.log 2>&1; then echo "$n BUILD-FAIL" >> $OUT; continue; fi
  # existing tests of touched packages and their importers
  touched=$(git diff --name-only | xargs -n1 dirname | sort -u | sed 's|^|./|')
  if go test -vet=off -count=1 -timeout 600s ./... > /tmp/confirm_t.log 2>&1; then t=SUITE-PASS; else t=SUITE-FAIL:$(grep -h "^FAIL\|^--- FAIL" /tmp/confirm_t.log | head -3 | tr '\n' ' '); fi
  cp $d/demo_test.go $WT/$dest
  if go test -vet=off -count=1 -timeout 300s $pkg -run 'Demo|ZZ|C[0-9][0-9][AB]' > /tmp/confirm_m.log 2>&1; then m=PASS; else m=FAIL; fi
  echo "$n pristine=$p mutant=$m $t touched=$touched" >> $OUT
done
cd / && git -C /repo worktree remove --force $WT
echo DONE >> $OUT
