#!/usr/bin/env python3
# Rewrites seeded/<id>/meta.json from the author's description (kept), seeded/CONFIRM.log and seeded/RESULTS.txt.
import json, os, re, glob
V='/verif/seeded'
confirm={}
for l in open(V+'/CONFIRM.log'):
    f=l.split()
    if len(f)>=3 and re.match(r'C\d\d-[AB]$',f[0]): confirm[f[0]]=l.strip()
recheck={}
if os.path.exists(V+'/RECHECK.log'):
    for l in open(V+'/RECHECK.log'):
        f=l.split(None,1)
        if len(f)==2: recheck[f[0]]=f[1].strip()
results={}
for l in open(V+'/RESULTS.txt'):
    f=l.split()
    if len(f)>=3 and re.match(r'C\d\d-[AB]$',f[0]): results.setdefault(f[0],[]).append({'check':f[1],'verdict':f[2],'first_failing_obligation':' '.join(f[3:])})
for d in sorted(glob.glob(V+'/C??-[AB]')):
    n=os.path.basename(d)
    m=json.load(open(d+'/meta.json'))
    author={k:m[k] for k in ('property','files_changed','what_breaks','needs_to_manifest','existing_tests_pass') if k in m}
    if 'author' in m: author=m['author']
    dest=''
    first=open(d+'/demo_test.go').readline()
    mm=re.search(r'copy to: *(\S+)',first)
    if mm: dest=mm.group(1)
    rebased=os.path.exists(d+'/patch_rebased.diff')
    out={'id':n,'property':author.get('property',n[:3]),
         'author':author,
         'patch':'patch_rebased.diff' if rebased else 'patch.diff',
         'patch_note':('patch.diff is the change as written against the pinned commit; a later fix: commit touched the same lines, patch_rebased.diff is the same change against the current tree' if rebased else 'applies to the pinned commit and to the current tree'),
         'demonstration':{'file':'demo_test.go','copy_to':dest,'run':'in a scratch worktree with the patch applied: go test -vet=off -count=1 -run \'Demo|ZZ|C[0-9][0-9][AB]\' ./%s  (fails with the change, passes without it)'%os.path.dirname(dest)},
         'confirmed':{'how':'tools/confirm_seeded.sh: scratch worktree at the pinned commit; demonstration passes on the pristine tree and fails with the change; module builds; existing test suite (go test ./...) with the change','log_line':confirm.get(n,''),'recheck':recheck.get(n,'')},
         'detected_by':results.get(n,[])}
    json.dump(out,open(d+'/meta.json','w'),indent=1)
print('ok')
