#!/bin/bash
# usage: tools/runall.sh [quick|thorough]   runs every registered check; prints one line per property and a verdict.
tier=${1:-quick}
bad=0
for p in $(python3 -c "import json;print(' '.join(c['property_id'] for c in json.load(open('/verif/MANIFEST.json'))['checks']))"); do
  out=$(/verif/check $p $tier 2>&1); rc=$?
  line=$(echo "$out" | grep "^property" | tail -1 | cut -c1-150)
  err=$(echo "$out" | grep -c "CHECK-ERROR\|^VIOLATION")
  echo "$p rc=$rc alarms=$err $line"
  [ $rc -ne 0 ] && bad=1
  [ $err -ne 0 ] && bad=1
done
[ $bad -eq 0 ] && echo "ALL CLEAN" || echo "SOMETHING IS WRONG"
