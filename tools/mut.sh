#!/bin/bash
# usage: tools/mut.sh <seeded-name> <prop> [<prop>...]   applies /verif/seeded/<name>/patch.diff to /repo, runs the
# checks, and reverts the patch with `git apply -R` (never `git checkout`, which would drop uncommitted contract edits).
n=$1; shift
P=/verif/seeded/$n/patch.diff; [ -f /verif/seeded/$n/patch_rebased.diff ] && P=/verif/seeded/$n/patch_rebased.diff
cd /repo && git apply $P || { echo "APPLY-FAIL $n"; exit 2; }
for p in "$@"; do
  echo "== $n vs $p"
  (cd /verif && ./bin/gvc check -prop $p 2>&1 | grep -o "obligation=[^ ]*\|^property.*\|CHECK-ERROR.*" | head -${MUTLINES:-6})
done
cd /repo && git apply -R $P || echo "REVERT-FAIL $n"
