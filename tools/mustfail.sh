#!/bin/bash
# usage: tools/mustfail.sh <prop>   (part of the thorough tier)
# Vacuity guard by mutation: every seeded change and selftest case registered for <prop> is applied to a scratch COPY of
# /repo's committed tree (git archive HEAD; nothing is written to /repo) and the check for <prop> must raise an alarm
# on it. Exit 0 iff all are caught; a missed case means the check has lost its teeth (reported as CHECK-ERROR, exit 2).
set -u
prop=$1
export GOFLAGS=-mod=mod GOPROXY=off GOSUMDB=off GOTOOLCHAIN=local
WT=$(mktemp -d /tmp/gvc-mustfail-XXXXXX); OUT=$(mktemp -d /tmp/gvc-mustfail-out-XXXXXX)
trap 'rm -rf $WT $OUT' EXIT
git -C /repo archive HEAD | tar -x -C $WT || exit 2
cases=""
while read -r n rest; do for p in $rest; do [ "$p" = "$prop" ] && cases="$cases seeded:$n"; done; done < /verif/seeded/CHECKS.txt
while read -r n p; do [ "$p" = "$prop" ] && cases="$cases selftest:$n"; done < /verif/selftest/cases/LIST.txt
total=0; missed=0
for c in $cases; do
  kind=${c%%:*}; n=${c#*:}
  if [ $kind = seeded ]; then P=/verif/seeded/$n/patch.diff; [ -f /verif/seeded/$n/patch_rebased.diff ] && P=/verif/seeded/$n/patch_rebased.diff; else P=/verif/selftest/cases/$n.diff; fi
  if ! (cd $WT && git apply $P 2>/dev/null); then echo "MUST-FAIL $prop $c: patch does not apply to the committed tree (skipped)"; continue; fi
  total=$((total+1))
  r=$(GVC_OUT=$OUT /verif/bin/gvc check -prop $prop -repo $WT 2>&1)
  if echo "$r" | grep -q "^VIOLATION\|CHECK-ERROR: vacuity"; then echo "MUST-FAIL $prop $c: caught ($(echo "$r" | grep -o "obligation=[^ ]*" | head -1))"; else echo "MUST-FAIL $prop $c: MISSED"; missed=$((missed+1)); fi
  (cd $WT && git apply -R $P)
done
echo "MUST-FAIL $prop: $((total-missed))/$total caught"
# record in this run's evidence (thorough tier only; the file was just written by gvc)
python3 - "$prop" "$total" "$missed" "$cases" <<'PY' 2>/dev/null
import json,sys
prop,total,missed,cases=sys.argv[1],int(sys.argv[2]),int(sys.argv[3]),sys.argv[4].split()
p='/verif/evidence/%s.json'%prop
try:
    d=json.load(open(p))
    if d.get('tier')=='thorough':
        d['coverage']['must_fail_corpus']={'cases':cases,'applied':total,'caught':total-missed,'explanation':'each case (a seeded or selftest change that breaks this property) was applied to a scratch copy of the committed tree and this check had to raise an alarm on it'}
        json.dump(d,open(p,'w'),indent=1)
except Exception as e:
    pass
PY
[ $missed -eq 0 ] || { echo "CHECK-ERROR: must-fail corpus: $missed change(s) that break $prop are no longer detected"; exit 2; }
exit 0
