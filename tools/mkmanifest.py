#!/usr/bin/env python3
# Regenerates /verif/MANIFEST.json from the table below (claimed checks) and properties.jsonl.
import json, subprocess, os
V='/verif'
ids=[json.loads(l)['id'] for l in open(V+'/properties.jsonl')]
base=json.load(open('/root/.vp/BASELINE.json'))
claims=json.load(open(V+'/tools/claims.json'))
hooks=subprocess.run(['git','-C','/repo','log','--format=%H %s'],capture_output=True,text=True).stdout.strip().split('\n')
hook_commits=[l.split()[0] for l in hooks if ' verif:' in ' '+l.split(' ',1)[1] or l.split(' ',1)[1].startswith('verif:')]
checks=[]
for pid in ids:
    c=claims.get(pid)
    if not c or not c.get('claimed'): continue
    checks.append({
        "property_id":pid,
        "quick_cmd":"./check %s quick"%pid,
        "thorough_cmd":"./check %s thorough"%pid,
        "evidence_file":"/verif/evidence/%s.json"%pid,
        "replay_cmd_template":"./check --replay {path}",
        "engine":"gvc",
        "level_claimed":{"category":"proof","text":c['text'],"design_ref":c.get('design_ref','DESIGN.md section 5/'+pid)},
        "level_note":c['note'],
        "technique":"contract-based deductive verification: contracts as structured comments on the real Go functions, weakest-precondition-style VCs generated from go/ssa of /repo's current tree, discharged by z3/cvc5",
    })
na=[{"property_id":pid,"reason":claims.get(pid,{}).get('na_reason',"not yet built in this session; see DESIGN.md section 5 for the planned contract-based check")} for pid in ids if not (claims.get(pid) or {}).get('claimed')]
m={"version":1,
 "setup_cmd":"mkdir -p /verif/bin && cd /verif/gvc && GOFLAGS=-mod=mod GOPROXY=off GOSUMDB=off GOTOOLCHAIN=local go build -o /verif/bin/gvc .",
 "hooks":{"guard":"verif","enable":"go/packages load of /repo with -tags=verif: the contract files /repo/<pkg>/verif_contracts.go are comment-only Go files that exist only under that tag; nothing executable is added",
          "baseline_off_cmd":base['cmd'],"source_commits":hook_commits,"add_only":True},
 "engines":[{"name":"gvc","path":"/verif/gvc","serves_properties":[c['property_id'] for c in checks],
   "kind_free_text":"self-written verification-condition generator over go/ssa of /repo's current sources (tag verif); contracts as structured //@ comments keyed by function; obligations discharged by z3 5.1.0 (incremental), undecided ones raced on z3 4.8.12 / z3 5.1.0 / cvc5 1.0.3"}],
 "checks":checks,
 "notes":"See DESIGN.md (sections 2 and 10 for the as-built engine). Exit 0 = all obligations discharged (KNOWN-FINDING lines for listed findings), exit 1 = VIOLATION lines, exit 2 = the check itself is broken (contract error, vacuity).",
 "not_applicable":na}
json.dump(m,open(V+'/MANIFEST.json','w'),indent=1)
print(len(checks),'checks',len(na),'n/a')
