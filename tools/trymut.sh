#!/bin/bash
# usage: tools/trymut.sh <patch.diff> <prop> [<prop>...]   applies a patch to a scratch worktree of /repo HEAD (contracts
# included), runs the named checks against it (evidence redirected), prints CAUGHT/MISSED per check, removes the worktree.
set -u
P=$1; shift
WT=/tmp/gvc-trywt-$$; OUT=/tmp/gvc-tryout-$$
git -C /repo worktree add -q --detach $WT HEAD || exit 2
trap 'git -C /repo worktree remove --force $WT; rm -rf $OUT' EXIT
# uncommitted contract edits in /repo are taken along (contract files only)
(cd /repo && for f in $(git ls-files -m | grep 'verif_contracts.go$'); do cp $f $WT/$f; done)
if ! git -C $WT apply $P; then echo "APPLY-FAIL $P"; exit 2; fi
for p in "$@"; do
  r=$(GVC_OUT=$OUT /verif/bin/gvc check -prop $p -repo $WT 2>&1)
  v=$(echo "$r" | grep -o "obligation=[^ ]*" | head -${TRYLINES:-3} | tr '\n' ' ')
  e=$(echo "$r" | grep -o "CHECK-ERROR.*" | head -1 | cut -c1-160)
  if [ -n "$v" ]; then echo "$(basename $P) $p CAUGHT ${v}"; elif [ -n "$e" ]; then echo "$(basename $P) $p ERROR $e"; else echo "$(basename $P) $p MISSED"; fi
done
