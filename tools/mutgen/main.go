// mutgen: enumerates small syntactic mutations of one function in one Go file and writes each mutated file content to
// an output directory (one file per mutant, plus an index). Used by tools/mutcampaign.sh to look for changes that the
// contracts do not notice. Operators: relational/boolean/arithmetic operator swaps, negated conditions, deleted
// call / assignment / inc-dec statements, 0<->1 literals.
package main

import (
	"bytes"
	"fmt"
	"go/ast"
	"go/parser"
	"go/printer"
	"go/token"
	"os"
	"path/filepath"
	"strings"
)

func main() {
	if len(os.Args) < 4 {
		fmt.Fprintln(os.Stderr, "usage: mutgen <file.go> <funcname or Recv.Method> <outdir>")
		os.Exit(2)
	}
	file, fname, out := os.Args[1], os.Args[2], os.Args[3]
	os.MkdirAll(out, 0o755)
	src, err := os.ReadFile(file)
	if err != nil {
		panic(err)
	}
	count := 0
	var index []string
	// each mutation is applied to a freshly parsed AST, addressed by its ordinal in a deterministic walk
	for n := 0; ; n++ {
		fset := token.NewFileSet()
		f, err := parser.ParseFile(fset, file, src, parser.ParseComments)
		if err != nil {
			panic(err)
		}
		var fd *ast.FuncDecl
		for _, d := range f.Decls {
			if x, ok := d.(*ast.FuncDecl); ok && x.Body != nil {
				name := x.Name.Name
				if x.Recv != nil && len(x.Recv.List) > 0 {
					t := x.Recv.List[0].Type
					if s, ok := t.(*ast.StarExpr); ok {
						t = s.X
					}
					if id, ok := t.(*ast.Ident); ok {
						name = id.Name + "." + name
					}
				}
				if name == fname {
					fd = x
				}
			}
		}
		if fd == nil {
			fmt.Fprintln(os.Stderr, "function not found:", fname)
			os.Exit(2)
		}
		k := 0
		desc := ""
		done := false
		hit := func() bool { k++; return k-1 == n }
		swap := map[token.Token]token.Token{token.LSS: token.LEQ, token.LEQ: token.LSS, token.GTR: token.GEQ, token.GEQ: token.GTR,
			token.EQL: token.NEQ, token.NEQ: token.EQL, token.LAND: token.LOR, token.LOR: token.LAND, token.ADD: token.SUB, token.SUB: token.ADD}
		var walkBlock func(list *[]ast.Stmt)
		var inspect func(n ast.Node) bool
		inspect = func(nd ast.Node) bool {
			if done {
				return false
			}
			switch x := nd.(type) {
			case *ast.FuncLit:
				// closures belong to the function
			case *ast.BinaryExpr:
				if to, ok := swap[x.Op]; ok {
					if x.Op == token.ADD {
						if bl, ok := x.X.(*ast.BasicLit); ok && bl.Kind == token.STRING {
							break
						}
						if bl, ok := x.Y.(*ast.BasicLit); ok && bl.Kind == token.STRING {
							break
						}
					}
					if hit() {
						desc = fmt.Sprintf("line %d: %s -> %s", fset.Position(x.OpPos).Line, x.Op, to)
						x.Op = to
						done = true
						return false
					}
				}
			case *ast.IfStmt:
				if hit() {
					desc = fmt.Sprintf("line %d: negate if condition", fset.Position(x.Pos()).Line)
					x.Cond = &ast.UnaryExpr{Op: token.NOT, X: &ast.ParenExpr{X: x.Cond}}
					done = true
					return false
				}
			case *ast.BasicLit:
				if x.Kind == token.INT && (x.Value == "0" || x.Value == "1") {
					if hit() {
						nv := "1"
						if x.Value == "1" {
							nv = "0"
						}
						desc = fmt.Sprintf("line %d: literal %s -> %s", fset.Position(x.Pos()).Line, x.Value, nv)
						x.Value = nv
						done = true
						return false
					}
				}
			case *ast.BlockStmt:
				walkBlock(&x.List)
			case *ast.CaseClause:
				walkBlock(&x.Body)
			case *ast.CommClause:
				walkBlock(&x.Body)
			}
			return !done
		}
		walkBlock = func(list *[]ast.Stmt) {
			for i, s := range *list {
				if done {
					return
				}
				del := false
				switch st := s.(type) {
				case *ast.ExprStmt:
					if _, ok := st.X.(*ast.CallExpr); ok {
						del = true
					}
				case *ast.AssignStmt:
					if st.Tok != token.DEFINE {
						del = true
					}
				case *ast.IncDecStmt, *ast.DeferStmt, *ast.GoStmt:
					del = true
				}
				if del && hit() {
					var b bytes.Buffer
					printer.Fprint(&b, fset, s)
					one := strings.SplitN(b.String(), "\n", 2)[0]
					desc = fmt.Sprintf("line %d: delete statement `%s`", fset.Position(s.Pos()).Line, one)
					*list = append(append([]ast.Stmt{}, (*list)[:i]...), (*list)[i+1:]...)
					done = true
					return
				}
			}
		}
		ast.Inspect(fd.Body, inspect)
		if !done {
			break
		}
		var b bytes.Buffer
		if err := printer.Fprint(&b, fset, f); err != nil {
			continue
		}
		name := fmt.Sprintf("m%03d.go", count)
		os.WriteFile(filepath.Join(out, name), b.Bytes(), 0o644)
		index = append(index, name+"\t"+desc)
		count++
	}
	os.WriteFile(filepath.Join(out, "INDEX.txt"), []byte(strings.Join(index, "\n")+"\n"), 0o644)
	fmt.Println(count, "mutants")
}
