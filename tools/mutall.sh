#!/bin/bash
# usage: tools/mutall.sh [name...]   runs every seeded change (or the named ones) against the checks listed for it in
# seeded/CHECKS.txt, in a scratch worktree of /repo (the registered checks and /repo itself are not touched), and
# writes seeded/RESULTS.txt: "<name> <prop> CAUGHT <first failing obligation>" or "<name> <prop> MISSED".
set -u
WT=/tmp/gvc-mutwt-$$
OUT=/tmp/gvc-mutout-$$
git -C /repo worktree add -q --detach $WT HEAD || exit 2
trap 'git -C /repo worktree remove --force $WT; rm -rf $OUT' EXIT
names="$@"; [ -z "$names" ] && names=$(cut -d' ' -f1 /verif/seeded/CHECKS.txt)
for n in $names; do
  props=$(grep "^$n " /verif/seeded/CHECKS.txt | cut -d' ' -f2-)
  P=/verif/seeded/$n/patch.diff; [ -f /verif/seeded/$n/patch_rebased.diff ] && P=/verif/seeded/$n/patch_rebased.diff
  if ! git -C $WT apply $P 2>/dev/null; then echo "$n - APPLY-FAIL"; continue; fi
  for p in $props; do
    r=$(GVC_OUT=$OUT /verif/bin/gvc check -prop $p -repo $WT 2>&1)
    v=$(echo "$r" | grep -o "obligation=[^ ]*" | head -1)
    e=$(echo "$r" | grep -o "CHECK-ERROR.*" | head -1 | cut -c1-120)
    if [ -n "$v" ]; then echo "$n $p CAUGHT ${v#obligation=}"; elif [ -n "$e" ]; then echo "$n $p ERROR $e"; else echo "$n $p MISSED"; fi
  done
  git -C $WT apply -R $P
done
