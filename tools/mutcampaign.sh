#!/bin/bash
# usage: tools/mutcampaign.sh <relfile> <Recv.Func|Func> <prop> <contract-name-substring> [outdir]
# Enumerates small syntactic mutants of one function (bin/mutgen), and for each that compiles runs the function's own
# check (`gvc check -prop <prop> -only <substring>`) on a scratch copy of the committed tree. Survivors are the changes
# the contracts of that function do not notice; they are triaged by hand (equivalent / harmless / contract too weak).
set -u
export GOFLAGS=-mod=mod GOPROXY=off GOSUMDB=off GOTOOLCHAIN=local
rel=$1; fn=$2; prop=$3; only=$4; outdir=${5:-/tmp/gvc-mutcampaign}
tag=$(echo "$rel.$fn" | tr '/.' '__')
mkdir -p $outdir
WT=$(mktemp -d /tmp/gvc-mc-XXXXXX); M=$(mktemp -d /tmp/gvc-mcm-XXXXXX); OUT=$(mktemp -d /tmp/gvc-mco-XXXXXX)
trap 'rm -rf $WT $M $OUT' EXIT
git -C /repo archive HEAD | tar -x -C $WT
/verif/bin/mutgen $WT/$rel "$fn" $M >/dev/null || exit 2
res=$outdir/$tag.txt; : > $res
while IFS=$'\t' read -r f desc; do
  [ -z "$f" ] && continue
  cp $WT/$rel $M/orig.go.bak
  cp $M/$f $WT/$rel
  if ! (cd $WT && go build ./$(dirname $rel) >/dev/null 2>&1); then echo "NOBUILD $desc" >> $res; cp $M/orig.go.bak $WT/$rel; continue; fi
  r=$(GVC_OUT=$OUT timeout 300 ${GVC_BIN:-/verif/bin/gvc} check -prop $prop -only "$only" -repo $WT 2>&1)
  if echo "$r" | grep -q "^VIOLATION\|CHECK-ERROR"; then echo "CAUGHT $desc :: $(echo "$r" | grep -o "obligation=[^ ]*\|CHECK-ERROR.*" | head -1 | cut -c1-120)" >> $res; else echo "SURVIVED $desc" >> $res; fi
  cp $M/orig.go.bak $WT/$rel
done < $M/INDEX.txt
echo "$tag: $(grep -c ^CAUGHT $res) caught, $(grep -c ^SURVIVED $res) survived, $(grep -c ^NOBUILD $res) do not build"
