#!/bin/bash
# usage: tools/confirm_new.sh <name> <patch> <demo_test.go> <pkgdir>   confirms a candidate seeded change in a scratch
# worktree of /repo HEAD: patch applies, module builds, the existing suite passes with it, the demo fails with it and passes without.
export GOFLAGS=-mod=mod GOPROXY=off GOSUMDB=off GOTOOLCHAIN=local
n=$1; P=$2; D=$3; pkg=$4
WT=/tmp/gvc-confwt-$n
git -C /repo worktree remove --force $WT 2>/dev/null
git -C /repo worktree add -q --detach $WT HEAD || exit 1
trap 'cd /; git -C /repo worktree remove --force $WT' EXIT
cd $WT
cp $D $pkg/zz_demo_x_test.go
if go test -vet=off -count=1 -timeout 300s ./$pkg -run 'TestDemo' > /tmp/conf_$n.p.log 2>&1; then p=PASS; else p=FAIL; fi
rm -f $pkg/zz_demo_x_test.go
if ! git apply $P; then echo "$n APPLY-FAIL"; exit 1; fi
if ! go build ./... > /tmp/conf_$n.b.log 2>&1; then echo "$n BUILD-FAIL"; exit 1; fi
if go test -p ${CONF_P:-4} -vet=off -count=1 -timeout 900s ./... > /tmp/conf_$n.t.log 2>&1; then t=SUITE-PASS; else t=SUITE-FAIL:$(grep -h "^FAIL\|^--- FAIL" /tmp/conf_$n.t.log | head -3 | tr '\n' ' '); fi
cp $D $pkg/zz_demo_x_test.go
if go test -vet=off -count=1 -timeout 300s ./$pkg -run 'TestDemo' > /tmp/conf_$n.m.log 2>&1; then m=PASS; else m=FAIL; fi
echo "$n pristine=$p mutant=$m $t"
