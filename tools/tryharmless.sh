#!/bin/bash
# usage: tools/tryharmless.sh <patch.diff>...   each behaviour-preserving patch is applied to a scratch worktree of /repo HEAD
# (uncommitted contract edits taken along) and EVERY obligation of the touched package(s) is checked (-prop ALL -pkg <dir>):
# any alarm is a false alarm.
set -u
WT=/tmp/gvc-harmwt-$$; OUT=/tmp/gvc-harmout-$$
git -C /repo worktree add -q --detach $WT HEAD || exit 2
trap 'git -C /repo worktree remove --force $WT; rm -rf $OUT' EXIT
(cd /repo && for f in $(git ls-files -m | grep 'verif_contracts.go$'); do cp $f $WT/$f; done)
for P in "$@"; do
  if ! git -C $WT apply $P 2>/dev/null; then echo "$(basename $P) APPLY-FAIL"; continue; fi
  for d in $(grep '^+++ b/' $P | sed 's|+++ b/||' | xargs -n1 dirname | sort -u); do
    r=$(GVC_OUT=$OUT /verif/bin/gvc check -prop ALL -pkg "gnmi/$d" -repo $WT 2>&1)
    v=$(echo "$r" | grep -o "obligation=[^ ]*" | head -3 | tr '\n' ' ')
    e=$(echo "$r" | grep -o "CHECK-ERROR.*" | head -1 | cut -c1-200)
    if [ -n "$v$e" ]; then echo "$(basename $P) $d ALARM $v $e"; else echo "$(basename $P) $d quiet: $(echo "$r" | grep '^property' | cut -c1-110)"; fi
  done
  git -C $WT apply -R $P
done
