#!/usr/bin/env python3
# usage: tools/addseeds.py <round-letter> <confirm.log> [first-run-verdicts.txt]
# Installs the confirmed candidate changes /tmp/mut/C??-<R>.{patch.diff,demo_test.go,meta.json} as /verif/seeded/C??-<R>/.
import json, sys, os, re, glob, shutil
R=sys.argv[1]; conf={}
for l in open(sys.argv[2]):
    f=l.split()
    if f: conf[f[0]]=l.strip()
first={}
if len(sys.argv)>3:
    for l in open(sys.argv[3]):
        f=l.split(None,1)
        if len(f)==2: first[f[0]]=f[1].strip()
for mf in sorted(glob.glob('/tmp/mut/C??-%s.meta.json'%R)):
    n=os.path.basename(mf)[:-len('.meta.json')]
    c=conf.get(n,'')
    if 'pristine=PASS' not in c or 'mutant=FAIL' not in c or 'SUITE-PASS' not in c:
        print('SKIP (not confirmed):',n,c); continue
    a=json.load(open(mf))
    d='/verif/seeded/'+n
    os.makedirs(d,exist_ok=True)
    shutil.copy('/tmp/mut/%s.patch.diff'%n,d+'/patch.diff')
    dest=a.get('demo_dir','').rstrip('/')+'/zz_demo_%s_test.go'%R.lower()
    body=open('/tmp/mut/%s.demo_test.go'%n).read()
    if not body.startswith('// copy to:'): body='// copy to: %s\n'%dest+body
    open(d+'/demo_test.go','w').write(body)
    out={'id':n,'property':a.get('property',n[:3]),
      'author':{k:a.get(k) for k in ('property','files_changed','what_breaks','needs_to_manifest','existing_tests_pass','demo_fails_with_change','demo_passes_without_change','commands_run','note') if k in a},
      'patch':'patch.diff','patch_note':'written by an independent sub-agent that saw only the property text and a scratch worktree of /repo without the contract files; applies to the current tree',
      'demonstration':{'file':'demo_test.go','copy_to':dest,'run':"in a scratch worktree with the patch applied: go test -vet=off -count=1 -run 'TestDemo%s' ./%s  (fails with the change, passes without it)"%(R,os.path.dirname(dest))},
      'confirmed':{'how':'tools/confirm_new.sh: scratch worktree of /repo HEAD; demonstration passes on the unchanged tree and fails with the change; module builds; whole existing test suite (go test -p 4 ./...) passes with the change','log_line':c},
      'first_run':first.get(n,''),
      'detected_by':[]}
    json.dump(out,open(d+'/meta.json','w'),indent=1)
    print('installed',n)
