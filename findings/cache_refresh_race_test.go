package cache

import (
	"sync"
	"testing"
	"time"

	pb "github.com/openconfig/gnmi/proto/gnmi"
)

// The collector runs the periodic metadata refresh (its own goroutine) concurrently with the target's update stream.
func TestZZRefreshConcurrentWithUpdates(t *testing.T) {
	c := New([]string{"dev"}, WithFutureThreshold(time.Hour))
	c.Sync("dev")
	var wg sync.WaitGroup
	wg.Add(2)
	go func() {
		defer wg.Done()
		for i := 0; i < 2000; i++ {
			c.GnmiUpdate(&pb.Notification{Timestamp: time.Now().Add(2 * time.Hour).UnixNano() + int64(i), Prefix: &pb.Path{Target: "dev"},
				Update: []*pb.Update{{Path: &pb.Path{Elem: []*pb.PathElem{{Name: "a"}}}, Val: &pb.TypedValue{Value: &pb.TypedValue_IntVal{IntVal: int64(i)}}}}})
			c.GnmiUpdate(&pb.Notification{Timestamp: int64(i + 1), Prefix: &pb.Path{Target: "dev"},
				Update: []*pb.Update{{Path: &pb.Path{Elem: []*pb.PathElem{{Name: "b"}}}, Val: &pb.TypedValue{Value: &pb.TypedValue_IntVal{IntVal: int64(i)}}}}})
		}
	}()
	go func() {
		defer wg.Done()
		for i := 0; i < 2000; i++ {
			c.UpdateMetadata()
			c.GetTarget("dev").Sync()
			c.Reset("dev")
		}
	}()
	wg.Wait()
}
