package cli

import "testing"

func TestZZPathmapAdd(t *testing.T) {
	for name, f := range map[string]func(){
		"empty path (root-level update)":          func() { pathmap{}.add(nil, 1) },
		"path continues below a nil display map stored as a value": func() { m := pathmap{}; m.add([]string{"a"}, pathmap(nil)); m.add([]string{"a", "b"}, 2) },
		"path continues below a displayed scalar": func() { m := pathmap{}; m.add([]string{"a"}, 1); m.add([]string{"a", "b"}, 2) },
	} {
		func() {
			defer func() {
				if r := recover(); r != nil {
					t.Errorf("%s: panic: %v", name, r)
				}
			}()
			f()
		}()
	}
}
